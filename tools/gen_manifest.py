#!/usr/bin/env python3
"""Regenerate /verif/MANIFEST.json from the metadata in verif/checks/cXX.py."""
import importlib
import json
import os
import sys

ROOT = os.path.dirname(os.path.dirname(os.path.abspath(__file__)))
sys.path.insert(0, ROOT)

ENGINES = {
    "alnmon": ("verif/alnmon.py", "API-level reference-model monitors on the real adapter/aligner/quality functions"),
    "climon": ("verif/climon.py", "fork-per-run executions of the real cutadapt.cli.main with probe hooks; offline checkers over trace + output files"),
    "mpmon": ("verif/mpmon.py", "multi-process runs under seeded schedule perturbation and input-fault enumeration"),
    "sanrun": ("verif/stage.py", "clang ASan+UBSan build of the four Cython extension modules loaded into /venv's CPython (LD_PRELOAD)"),
}

BASELINE = ("cd /repo && /venv/bin/python -m pytest -ra -q -p no:cacheprovider --timeout=900 "
            "--continue-on-collection-errors")


def main():
    props = {}
    with open(os.path.join(ROOT, "properties.jsonl")) as f:
        for line in f:
            p = json.loads(line)
            props[p["id"]] = p
    checks = []
    served = {k: [] for k in ENGINES}
    na = []
    na_reasons = {}
    na_path = os.path.join(ROOT, "not_applicable.json")
    if os.path.exists(na_path):
        na_reasons = json.load(open(na_path))
    for pid in sorted(props):
        try:
            m = importlib.import_module(f"verif.checks.{pid.lower()}")
        except ImportError:
            na.append(dict(property_id=pid, reason=na_reasons.get(pid, "check not built yet in this revision of the machinery; not claimed")))
            continue
        for e in m.ENGINES:
            served[e].append(pid)
        checks.append(dict(
            property_id=pid,
            quick_cmd=f"/venv/bin/python -m verif {pid} --tier quick",
            thorough_cmd=f"/venv/bin/python -m verif {pid} --tier thorough",
            evidence_file=f"/verif/evidence/{pid}.json",
            replay_cmd_template=f"/venv/bin/python -m verif {pid} --replay {{path}}",
            engine=m.ENGINES[0],
            level_claimed=dict(category=m.LEVEL, text=m.LEVEL_TEXT, design_ref=f"DESIGN.md section 3, {pid}"),
            level_note=m.LEVEL_NOTE,
            technique=m.TECHNIQUE,
        ))
    manifest = dict(
        version=1,
        setup_cmd="/venv/bin/python -m verif setup",
        hooks=dict(
            guard="CUTADAPT_VERIF",
            enable=("no instrumentation is committed to /repo: every check copies /repo/src/cutadapt (current working tree) to "
                    "/verif/.build/<variant>-<hash>, recompiles the Cython modules (gcc, or clang ASan/UBSan) and runs shard "
                    "processes with PYTHONPATH=<stage>:/verif and CUTADAPT_VERIF=1; verif/probe.py then replaces attributes of "
                    "the staged modules (monkeypatch hooks) inside those processes only"),
            baseline_off_cmd=BASELINE,
            source_commits=[],
            add_only=True,
        ),
        engines=[dict(name=k, path=v[0], serves_properties=served[k], kind_free_text=v[1]) for k, v in ENGINES.items() if served[k]],
        checks=checks,
        notes=("Family: runtime monitoring and sanitizers only. Exit codes: 0 held (KNOWN-FINDING lines possible), 1 VIOLATION, "
               "3 INCONCLUSIVE (monitor saw too little / build failed / watchdog). VERIF_SEED, VERIF_TIER, VERIF_REPO honoured. "
               "known_findings.json lists recorded findings and fixed defects."),
        not_applicable=na,
    )
    with open(os.path.join(ROOT, "MANIFEST.json"), "w") as f:
        json.dump(manifest, f, indent=1)
        f.write("\n")
    print(f"{len(checks)} checks, {len(na)} not claimed")


if __name__ == "__main__":
    main()
