#!/usr/bin/env python3
"""
Confirm an independently produced breaking change and keep it under /verif/seeded/<id>/.

usage: import_seeded.py <source dir with patch.diff, demo.py, meta.json> <seeded id, e.g. C04-a> [--property C04]

Steps (all in a scratch git worktree of /repo outside /repo and /verif, removed afterwards):
  1. demo.py passes on the unchanged tree
  2. the patch applies, the extensions rebuild, the repository's test suite still passes (696 passed)
  3. demo.py fails with the change
Only then are patch.diff, demo.py and meta.json (extended with what was run) copied to /verif/seeded/<id>/.
"""
import json
import os
import re
import shutil
import subprocess
import sys
import tempfile

PY = "/venv/bin/python"
ROOT = os.path.dirname(os.path.dirname(os.path.abspath(__file__)))


def sh(cmd, cwd=None, env=None, timeout=1200):
    r = subprocess.run(cmd, cwd=cwd, env=env, capture_output=True, text=True, timeout=timeout)
    return r.returncode, r.stdout + r.stderr


def build_ext(wt):
    import sysconfig

    inc = sysconfig.get_paths()["include"]
    suf = sysconfig.get_config_var("EXT_SUFFIX")
    src = os.path.join(wt, "src", "cutadapt")
    for m in ("_align", "_kmer_finder", "qualtrim", "info"):
        c = os.path.join(wt, f".{m}.c")
        rc, out = sh(["/venv/bin/cython", "-3", os.path.join(src, m + ".pyx"), "-o", c])
        if rc:
            return False, out
        rc, out = sh(["gcc", "-O2", "-g0", "-fPIC", "-shared", "-w", f"-I{inc}", f"-I{src}", c, "-o", os.path.join(src, m + suf)])
        os.unlink(c)
        if rc:
            return False, out
    v = os.path.join(src, "_version.py")
    if not os.path.exists(v):
        shutil.copy("/repo/src/cutadapt/_version.py", v)
    return True, ""


def main():
    srcdir, sid = sys.argv[1], sys.argv[2]
    prop = sys.argv[sys.argv.index("--property") + 1] if "--property" in sys.argv else sid.split("-")[0]
    for f in ("patch.diff", "demo.py", "meta.json"):
        if not os.path.exists(os.path.join(srcdir, f)):
            print(f"missing {f} in {srcdir}")
            return 2
    meta = json.load(open(os.path.join(srcdir, "meta.json")))
    base = tempfile.mkdtemp(prefix="verif-seedcheck-")
    wt = os.path.join(base, "wt")
    ran = {}
    try:
        rc, out = sh(["git", "-C", "/repo", "worktree", "add", "--detach", wt, "HEAD", "-q"])
        if rc:
            print("cannot create worktree:", out)
            return 2
        ok, out = build_ext(wt)
        if not ok:
            print("build failed on the unchanged tree:", out[-500:])
            return 2
        env = dict(os.environ, PYTHONPATH=os.path.join(wt, "src"))
        demo = os.path.join(base, "demo.py")
        text = open(os.path.join(srcdir, "demo.py")).read()
        # demos were written against the author's own worktree path; point them at the scratch one
        text = re.sub(r"/tmp/wt\d*/C\d\d", wt, text)
        open(demo, "w").write(text)
        rc0, out0 = sh([PY, demo], cwd=base, env=env, timeout=900)
        ran["demo_on_unchanged_tree"] = dict(exit=rc0, tail=out0[-300:])
        if rc0 != 0:
            print(f"REJECT: demo does not pass on the unchanged tree (exit {rc0}): {out0[-400:]}")
            return 1
        rc, out = sh(["git", "-C", wt, "apply", os.path.join(os.path.abspath(srcdir), "patch.diff")])
        if rc:
            print("REJECT: patch does not apply:", out[-400:])
            return 1
        ok, out = build_ext(wt)
        if not ok:
            print("REJECT: does not compile with the change:", out[-500:])
            return 1
        rc, out = sh([PY, "-m", "pytest", "-q", "-p", "no:cacheprovider", "tests"], cwd=wt, env=env, timeout=1800)
        m = re.search(r"(\d+) passed", out)
        f = re.search(r"(\d+) failed", out)
        passed = int(m.group(1)) if m else 0
        failed = int(f.group(1)) if f else 0
        ran["test_suite_with_change"] = dict(passed=passed, failed=failed, summary=out.strip().splitlines()[-1][:200])
        only_known = failed == 0 or (failed == 1 and "test_run_cutadapt_process" in out)
        if passed < 696 or not only_known:
            print(f"REJECT: test suite not green with the change: {out.strip().splitlines()[-1]}")
            print("\n".join(l for l in out.splitlines() if l.startswith("FAILED"))[:800])
            return 1
        rc1, out1 = sh([PY, demo], cwd=base, env=env, timeout=900)
        ran["demo_with_change"] = dict(exit=rc1, tail=out1[-600:])
        if rc1 == 0:
            print("REJECT: demo passes with the change applied")
            return 1
        dst = os.path.join(ROOT, "seeded", sid)
        os.makedirs(dst, exist_ok=True)
        shutil.copy(os.path.join(srcdir, "patch.diff"), os.path.join(dst, "patch.diff"))
        open(os.path.join(dst, "demo.py"), "w").write(open(os.path.join(srcdir, "demo.py")).read())
        meta_out = dict(
            property=prop,
            origin="written by a sub-agent that saw only the property text and its own worktree of /repo",
            summary=meta.get("summary"),
            needs_to_manifest=meta.get("needs_to_manifest"),
            files_changed=meta.get("files_changed"),
            confirmed=ran,
            how_to_run=f"git -C /repo apply /verif/seeded/{sid}/patch.diff; /venv/bin/python -m verif {prop} --tier quick; git -C /repo checkout -- .   "
                       f"(or: /venv/bin/python -m verif.selftest seeded {sid})",
        )
        json.dump(meta_out, open(os.path.join(dst, "meta.json"), "w"), indent=1)
        print(f"ACCEPTED {sid}: tests {passed} passed, demo {rc0} -> {rc1}")
        return 0
    finally:
        sh(["git", "-C", "/repo", "worktree", "remove", "--force", wt])
        shutil.rmtree(base, ignore_errors=True)


if __name__ == "__main__":
    sys.exit(main())
