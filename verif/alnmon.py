"""
API-level adapter monitors shared by C01, C02 and C07: workload generators for
(adapter configuration, read) pairs and the reference-model oracles applied to the
return value of the real `<AdapterClass>.match_to(read)`.
"""
import itertools

from . import refmodel as R

RATES = [0, 0.05, 0.1, 0.15, 0.2, 0.25, 0.3, 1 / 3, 0.34, 0.5, 0.7, 0.9]
ABS_ERRORS = [1, 2, 2.5, 3]


def adapter_classes():
    import cutadapt.adapters as A

    return dict(
        back=A.BackAdapter,
        front=A.FrontAdapter,
        prefix=A.PrefixAdapter,
        suffix=A.SuffixAdapter,
        nfront=A.NonInternalFrontAdapter,
        nback=A.NonInternalBackAdapter,
        anywhere=A.AnywhereAdapter,
        rightmost=A.RightmostFrontAdapter,
    )


def rnd_seq(rng, n, alpha):
    return "".join(rng.choice(alpha) for _ in range(n))


def mutate(rng, s, k, alpha, indels=True):
    s = list(s)
    for _ in range(k):
        op = rng.choice("sid" if indels else "s")
        if op == "s" and s:
            s[rng.randrange(len(s))] = rng.choice(alpha)
        elif op == "i":
            s.insert(rng.randrange(len(s) + 1), rng.choice(alpha))
        elif op == "d" and s:
            del s[rng.randrange(len(s))]
    return "".join(s)


# (length, absolute number of errors) for which number/length*length falls just below the number in double precision
# (int() of it loses one error), and one (rate, length) pair of the same kind: every place that computes the number of
# allowed errors has to arrive at the same value
ROUNDING_PAIRS = [(m, k) for m in range(2, 131) for k in range(1, 7) if k < m and int((k / m) * m) != k]


def gen_config(rng, long_adapters=False, allow_force_anywhere=True, very_long=0.0, rounding=0.03, odd_chars=0.0):
    t = rng.choice(R.TYPES)
    wild = rng.random() < 0.3
    vl = rng.random() < very_long
    if rng.random() < odd_chars:
        # -N: any character may stand in the adapter (no validation); with read wildcards on it equals a read N
        m = rng.randint(4, 14)
        seq = list(rnd_seq(rng, m, "ACGT"))
        for p in rng.sample(range(m), rng.choice([1, 1, 2])):
            seq[p] = rng.choice("X.-XE")
        return dict(type=t, seq="".join(seq), max_errors=rng.choice([0, 0.1, 0.2, 0.3]), min_overlap=rng.randint(1, m), aw=False, rw=rng.random() < 0.7,
                    indels=rng.random() < 0.6, fa=bool(allow_force_anywhere and t in ("back", "front", "rightmost") and rng.random() < 0.12))
    if rng.random() < rounding:
        m, k = rng.choice(ROUNDING_PAIRS + [(90, 0.7)])
        return dict(type=t, seq=rnd_seq(rng, m, "ACGT"), max_errors=k, min_overlap=rng.choice([1, 3, m // 2, m]), aw=rng.random() < 0.8,
                    rw=rng.random() < 0.25, indels=rng.random() < 0.6,
                    fa=bool(allow_force_anywhere and t in ("back", "front", "rightmost") and rng.random() < 0.12))
    if vl:
        # k+1 chunks of about 64 characters: the k-mers of one search set straddle the 64-character word of the finder
        m = rng.choice([rng.randint(126, 134), rng.randint(190, 198), rng.randint(120, 200)])
    elif long_adapters and rng.random() < (0.35 if long_adapters is True else long_adapters):
        m = rng.choice([rng.randint(21, 40), rng.randint(58, 70), rng.randint(62, 66)])
    else:
        m = rng.randint(1, 20) if rng.random() < 0.8 else rng.randint(1, 6)
    alpha = "ACGT" if not wild else "ACGTNNRYSWKMBDHV"
    if rng.random() < 0.2:
        alpha = "AC"
    seq = rnd_seq(rng, m, alpha)
    if set(seq) <= {"N"}:
        seq = "A" + seq[1:]
    if rng.random() < 0.04:
        seq = seq.lower()
    if rng.random() < 0.03:
        seq = seq.replace("T", "U")
    rate = rng.choice(RATES)
    if rng.random() < 0.15:
        rate = rng.choice(ABS_ERRORS)
    if m > 40 and rng.random() < 0.5:
        rate = rng.choice([0, 0, 0.01, 0.02, 1])   # few allowed errors: k-mers approach / exceed the 64-bit word
    if vl:
        rate = rng.choice([0.01, 0.011, 0.016, 0.008, 0.02])
        wild = False
    cfg = dict(
        type=t,
        seq=seq,
        max_errors=rate,
        min_overlap=rng.randint(1, m) if rng.random() < 0.93 else m + rng.randint(1, 6),   # above the length: documented to be reduced to it
        aw=rng.random() < 0.8,
        rw=rng.random() < 0.25,
        indels=rng.random() < 0.6,
        fa=bool(allow_force_anywhere and t in ("back", "front", "rightmost") and rng.random() < 0.12),
    )
    return cfg


def build(cfg):
    """Build the real adapter object; None if the configuration is rejected or outside the
    stated domain (effective rate >= 1)."""
    classes = adapter_classes()
    # decide the domain before constructing anything (a constructor of an out-of-domain
    # configuration must not be able to use up a sanitizer's once-per-location report)
    norm = R.normalize_adapter(cfg["seq"])
    non_n = len(norm) - norm.count("N")
    if not norm or non_n == 0:
        return None
    if cfg["max_errors"] >= 1 and cfg["max_errors"] / non_n >= 1:
        return None
    kw = dict(
        max_errors=cfg["max_errors"],
        read_wildcards=cfg["rw"],
        adapter_wildcards=cfg["aw"],
        indels=cfg["indels"],
        name="ad",
    )
    if cfg["type"] not in ("prefix", "suffix"):
        kw["min_overlap"] = cfg["min_overlap"]
    if cfg.get("fa"):
        kw["force_anywhere"] = True
    try:
        ad = classes[cfg["type"]](cfg["seq"], **kw)
    except Exception:
        return None
    if not (0 <= ad.max_error_rate < 1):
        return None
    return ad


def plant_core(rng, cfg, aseq_norm):
    core = aseq_norm
    if any(c not in "ACGT" for c in core):
        # characters that are no IUPAC code (X, '.', '-': possible when adapter wildcards are off): the read carries the
        # character itself, an N (what such a character equals when read wildcards are on) or a base
        odd = lambda c: rng.choice([c, "N", "N", "A"])
        core = "".join((rng.choice(R.IUPAC.get(c, "A")) if R.IUPAC.get(c) else (odd(c) if c not in "ACGT" else c)) for c in core)
    return core


def gen_read(rng, cfg, aseq_norm, short_bias=False):
    """Random read or read with a planted (possibly damaged/truncated) adapter occurrence."""
    alpha_r = rng.choice(["ACGT", "ACGT", "ACGT", "AC", "ACGTN", "acgtACGTN", "ACGTRYN", "ACGTUX.-*n", "ACGTacgtuU"])
    mode = rng.random()
    m = len(aseq_norm)
    if short_bias and (cfg["type"] == "anywhere" or cfg.get("fa")) and cfg["indels"] and m >= 8 and rng.random() < 0.25:
        # the read lies inside the adapter but insertions make it as long as (or longer than) the adapter
        core = plant_core(rng, cfg, aseq_norm)
        inner = list(core[1:-1] if rng.random() < 0.7 else core[rng.randint(1, 3):m - rng.randint(1, 3)])
        k = rng.randint(1, 4)
        for j in range(k):
            pos = (len(inner) * (j + 1)) // (k + 1) + rng.randint(-1, 1)
            inner.insert(max(0, min(len(inner), pos)), rng.choice("ACGT"))
        return "".join(inner)
    if short_bias and mode < 0.35:
        # reads shorter than the adapter (window clipping, read inside adapter)
        core = plant_core(rng, cfg, aseq_norm)
        a = rng.randint(0, m)
        b = rng.randint(a, m)
        read = mutate(rng, core[a:b], rng.randint(0, 1), "ACGT", cfg["indels"])
        if rng.random() < 0.3:
            read = rnd_seq(rng, rng.randint(0, max(0, m - 1)), alpha_r)
        return read
    if mode < 0.62:
        core = plant_core(rng, cfg, aseq_norm)
        k = rng.choice([0, 0, 1, 1, 2, 3, 4])
        core = mutate(rng, core, k, "ACGT", cfg["indels"])
        cut = rng.random()
        if cut < 0.25:
            core = core[: rng.randint(0, len(core))]
        elif cut < 0.5:
            core = core[rng.randint(0, len(core)) :]
        elif cut < 0.56:
            a = rng.randint(0, len(core))
            b = rng.randint(a, len(core))
            core = core[a:b]
        left = rnd_seq(rng, rng.randint(0, 10), alpha_r)
        right = rnd_seq(rng, rng.randint(0, 10), alpha_r)
        p = rng.random()
        if p < 0.3:
            left = ""
        elif p < 0.6:
            right = ""
        read = left + core + right
        if rng.random() < 0.12:
            # several copies
            read = read + rnd_seq(rng, rng.randint(0, 3), "ACGT") + plant_core(rng, cfg, aseq_norm)
        if rng.random() < 0.08:
            read = read.lower()
        return read
    if mode < 0.66:
        return ""
    L = rng.randint(0, 60) if rng.random() < 0.3 else rng.randint(0, 24)
    return rnd_seq(rng, L, alpha_r)


def expected_attrs(cfg):
    """What the configuration documents, independent of the object under test: normalised sequence, whether adapter
    wildcards are in effect, read wildcards, indels, error rate (an absolute number is divided by the non-N bases)."""
    seq = R.normalize_adapter(cfg["seq"])
    non_n = len(seq) - seq.count("N")
    e = cfg["max_errors"]
    rate = e / non_n if e >= 1 else e
    return dict(seq=seq, aw=bool(cfg["aw"]) and not set(seq) <= set("ACGT"), rw=bool(cfg["rw"]), indels=bool(cfg["indels"]), rate=rate)


def attr_problems(cfg, ad):
    """The built adapter must carry the configured search parameters (else every later verdict would be judged
    against the wrong rule)."""
    ex = expected_attrs(cfg)
    got = dict(seq=ad.sequence, aw=bool(ad.adapter_wildcards), rw=bool(ad.read_wildcards), indels=bool(ad.indels), rate=ad.max_error_rate)
    return [f"{k}: adapter has {got[k]!r}, configured {ex[k]!r}" for k in ex
            if (abs(got[k] - ex[k]) > 1e-12 if k == "rate" else got[k] != ex[k])]


def match_tuple(mt):
    return (mt.astart, mt.astop, mt.rstart, mt.rstop, mt.score, mt.errors)


def case_dict(cfg, read):
    d = dict(cfg)
    d["read"] = read
    return d


# ---------------------------------------------------------------------------
# C01 oracle


def check_reported_match(cfg, ad, read, mt):
    """Return list of (clause, text) problems for a reported match (C01)."""
    problems = []
    ex = expected_attrs(cfg)
    aseq = ex["seq"]
    m, n = len(aseq), len(read)
    a0, a1, r0, r1, score, err = match_tuple(mt)
    if not (0 <= a0 <= a1 <= m and 0 <= r0 <= r1 <= n):
        problems.append(("bounds", f"intervals a[{a0}:{a1}] r[{r0}:{r1}] outside adapter({m})/read({n})"))
        return problems
    if not R.placement_ok(cfg["type"], m, n, a0, a1, r0, r1, cfg.get("fa", False)):
        problems.append(("placement", f"type {cfg['type']} fa={cfg.get('fa')}: a[{a0}:{a1}]/{m} r[{r0}:{r1}]/{n}"))
    want_overlap = m if cfg["type"] in ("prefix", "suffix") else min(cfg["min_overlap"], m)
    if a1 - a0 < want_overlap:
        problems.append(("min-overlap", f"{a1-a0} adapter bases aligned < {want_overlap}"))
    eq = R.make_eq(ex["aw"], ex["rw"])
    aseg, rseg = aseq[a0:a1], read[r0:r1]
    if ex["indels"]:
        d = R.edit_distance(aseg, rseg, eq)
    elif len(aseg) != len(rseg):
        problems.append(("no-indels-length", f"indels disabled but |a|={len(aseg)} |r|={len(rseg)}"))
        d = None
    else:
        d = R.hamming(aseg, rseg, eq)
    if d is not None and d != err:
        problems.append(("error-count", f"reported {err} errors, reference distance {d} for {aseg!r} vs {rseg!r}"))
    eff = R.effective_len(aseq, a0, a1, ex["aw"])
    if err > ex["rate"] * eff:
        problems.append(("tolerance", f"{err} errors > {ex['rate']} * {eff}"))
    return problems


# ---------------------------------------------------------------------------
# C02 oracle

NO_START_SKIP = ("back", "nback", "suffix", "prefix", "rightmost")


def admissible_occurrence(cfg, ad, read):
    """Return (clause, witness) if the premise of C02 holds for this case, else None.

    clause: 'ungapped' (indels off: any admissible ungapped occurrence),
            'gapped' (indels on, types that cannot skip the adapter start),
            'exact' (all types: an error-free admissible occurrence)."""
    ex = expected_attrs(cfg)
    aseq = ex["seq"]
    eq = R.make_eq(ex["aw"], ex["rw"])
    t = cfg["type"]
    fa = cfg.get("fa", False)
    # documented rule, not the object's attribute: anchored = full length; a larger value is reduced to the length
    mo = len(aseq) if t in ("prefix", "suffix") else min(cfg["min_overlap"], len(aseq))
    if not ex["indels"]:
        occ = next(R.admissible_ungapped(t, aseq, read, ex["rate"], mo, eq, ex["aw"], fa), None)
        return ("ungapped", occ) if occ else None
    if t in NO_START_SKIP and not fa:
        occ = R.exists_gapped_no_adapter_start_skip(t, aseq, read, ex["rate"], mo, eq, ex["aw"])
        return ("gapped", occ) if occ else None
    occ = next(
        (o for o in R.admissible_ungapped(t, aseq, read, ex["rate"], mo, eq, ex["aw"], fa) if o[4] == 0),
        None,
    )
    return ("exact", occ) if occ else None


def check_exact_copy_clauses(cfg, ad, read, mt):
    """Position clauses of C02 for a reported match mt (not None)."""
    problems = []
    t = cfg["type"]
    if cfg.get("fa"):
        return problems, False
    exa = expected_attrs(cfg)
    aseq = exa["seq"]
    eq = R.make_eq(exa["aw"], exa["rw"])
    ex = R.exact_full_copies(aseq, read, eq)
    if not ex:
        return problems, False
    m, n = len(aseq), len(read)
    if t == "back" and not mt.rstart <= ex[0]:
        problems.append(("exact-copy-survives", f"3' adapter cut at {mt.rstart} after leftmost exact copy at {ex[0]}"))
    if t == "front" and not mt.rstop <= ex[0] + m:
        problems.append(("exact-copy-5p", f"5' adapter cut at {mt.rstop} after end of leftmost copy {ex[0]+m}"))
    if t == "rightmost" and not mt.rstop >= ex[-1] + m:
        problems.append(("exact-copy-rightmost", f"rightmost 5' adapter cut at {mt.rstop} before end of rightmost copy {ex[-1]+m}"))
    if t == "prefix" and ex[0] == 0 and (mt.rstart, mt.rstop, mt.errors) != (0, m, 0):
        problems.append(("anchored-exact", f"anchored 5' exact copy not removed exactly: {match_tuple(mt)}"))
    if t == "suffix" and ex[-1] == n - m and (mt.rstart, mt.rstop, mt.errors) != (n - m, n, 0):
        problems.append(("anchored-exact", f"anchored 3' exact copy not removed exactly: {match_tuple(mt)}"))
    return problems, True


# ---------------------------------------------------------------------------
# prefilter differential (C07, and the miss classification of C02)


class AlwaysTrue:
    def kmers_present(self, sequence):
        return True


def match_without_prefilter(ad, read):
    real = ad.kmer_finder
    ad.kmer_finder = AlwaysTrue()
    try:
        return ad.match_to(read)
    finally:
        ad.kmer_finder = real


def has_real_prefilter(ad):
    return type(ad.kmer_finder).__name__ not in ("MockKmerFinder", "AlwaysTrue")


def prefilter_facts(cfg, ad, read, m0):
    """Facts about a match that alignment alone finds (m0) - used to classify lost matches."""
    m = len(ad.sequence)
    return dict(
        indels=bool(ad.indels),
        alen=m0.astop - m0.astart,
        rlen=m0.rstop - m0.rstart,
        astart=m0.astart,
        astop_lt_m=m0.astop < m,
        anywhere=cfg["type"] == "anywhere" or bool(cfg.get("fa")),
        read_len=len(read),
        adapter_len=m,
        type=cfg["type"],
    )


# ---------------------------------------------------------------------------
# small-scope exhaustive enumeration


def exhaustive_configs(shard, nshards):
    """All adapters over {A,C} up to length 4 x 8 types x 4 rates x overlaps x indels,
    partitioned over shards."""
    idx = 0
    for L in range(1, 5):
        for tup in itertools.product("AC", repeat=L):
            seq = "".join(tup)
            for t in R.TYPES:
                for rate in (0, 0.25, 0.34, 0.5):
                    for mo in sorted({1, 2, L}):
                        if mo > L:
                            continue
                        for indels in (True, False):
                            idx += 1
                            if idx % nshards != shard:
                                continue
                            yield dict(type=t, seq=seq, max_errors=rate, min_overlap=mo, aw=True, rw=False,
                                       indels=indels, fa=False)


def exhaustive_reads(maxlen=6):
    for L in range(0, maxlen + 1):
        for tup in itertools.product("AC", repeat=L):
            yield "".join(tup)
