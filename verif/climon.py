"""
CLI-level monitoring helpers: run the real cutadapt.cli.main in a forked child with the probe
recording events, then load outputs (independent parser) and the per-read trace.
"""
import glob
import json
import os
import shutil

from . import clirun, fastx, probe


class Run:
    """Result of one monitored CLI execution."""

    def __init__(self, res, d, tag, evdir):
        self.res = res
        self.rc = res.rc
        self.out = res.out
        self.err = res.err
        self.dir = d
        self.tag = tag
        self.evdir = evdir
        self._events = None

    # ---- events ---------------------------------------------------
    def events_by_pid(self):
        if self._events is None:
            ev = {}
            if self.evdir:
                for path in sorted(glob.glob(os.path.join(self.evdir, "ev.*.jsonl"))):
                    pid = int(path.split(".")[-2])
                    lst = []
                    with open(path) as f:
                        for line in f:
                            line = line.strip()
                            if line:
                                try:
                                    lst.append(json.loads(line))
                                except ValueError:
                                    lst.append(dict(k="corrupt", raw=line[:100]))
                    ev[pid] = lst
            self._events = ev
        return self._events

    def all_events(self, kind=None):
        out = []
        for pid, lst in self.events_by_pid().items():
            for e in lst:
                if kind is None or e["k"] == kind:
                    out.append(e)
        return out

    def read_groups(self):
        """Per processed read (pair): dict(reads=[snap1, snap2|None], events=[mod/pmod/step ...]).
        Keyed by the id of read 1. Events of one process are sequential."""
        groups = {}
        for pid, lst in self.events_by_pid().items():
            cur = None
            for e in lst:
                k = e["k"]
                if k == "read":
                    if e["slot"] == 1:
                        cur = dict(reads=[e["i"], None], events=[], pid=pid)
                        groups[fastx.rid(e["i"][0])] = cur
                    elif cur is not None:
                        cur["reads"][1] = e["i"]
                elif k in ("mod", "pmod", "step") and cur is not None:
                    cur["events"].append(e)
        return groups

    # ---- files ----------------------------------------------------
    def path(self, name):
        return os.path.join(self.dir, name)

    def records(self, name):
        """(format, records) of an output file, None if it does not exist,
        ('error', message) if it cannot be parsed."""
        try:
            return fastx.read_records(self.path(name))
        except (fastx.ParseError, ValueError, OSError, EOFError) as e:
            return ("error", f"{type(e).__name__}: {e}")

    def json_report(self, name="rep.json"):
        with open(self.path(name)) as f:
            return json.load(f)


def run(d, argv, tag="run", trace=True, perturb=None, timeout=90, trace_reads=True, stdin_path=None, affinity=None):
    """Execute cutadapt.cli.main(argv) with cwd=d. Events go to d/<tag>.ev/."""
    evdir = None
    if trace and probe.ENABLED:
        evdir = os.path.join(d, f"{tag}.ev")
        shutil.rmtree(evdir, ignore_errors=True)
        os.makedirs(evdir)

    def pre():
        if affinity is not None:
            # the run (and the workers it starts) may use these CPUs only
            os.sched_setaffinity(0, affinity)
        probe.reset_for_run(evdir, perturb, trace_reads)

    res = clirun.run(argv, d, tag=tag, timeout=timeout, pre_main=pre, stdin_path=stdin_path)
    return Run(res, d, tag, evdir)


def write_inputs(d, recs1, recs2=None, fmt="fastq", names=("in1", "in2")):
    ext = "fq" if fmt == "fastq" else "fa"
    paths = []
    for recs, nm in ((recs1, names[0]), (recs2, names[1])):
        if recs is None:
            continue
        p = os.path.join(d, f"{nm}.{ext}")
        with open(p, "w") as f:
            f.write(fastx.format_fastq(recs) if fmt == "fastq" else fastx.format_fasta(recs))
        paths.append(f"{nm}.{ext}")
    return paths


def case_record(argv, d, files):
    """A replayable description of a CLI case: argv + contents of the input files."""
    content = {}
    for f in files:
        try:
            with open(os.path.join(d, f), "rb") as fh:
                content[f] = fh.read().decode("latin-1")
        except OSError:
            pass
    return dict(cli=True, argv=list(argv), files=content)


def replay_cli(ctx, case, extra_runs=()):
    """Re-execute a recorded CLI case; returns the Run."""
    d = os.path.join(ctx.scratch, "replay")
    shutil.rmtree(d, ignore_errors=True)
    os.makedirs(d)
    for name, text in case["files"].items():
        with open(os.path.join(d, name), "wb") as f:
            f.write(text.encode("latin-1"))
    return run(d, case["argv"], tag="replay")


def require_hooks(ctx, needed=("pipeline", "modifiers", "steps")):
    """Inconclusive when a deciding hook point no longer exists."""
    bad = [m for m in probe.MISSING_HOOKS if any(m.startswith(n) for n in needed) or m.startswith("install")]
    if not probe.ENABLED:
        ctx.mark_inconclusive("probe disabled (CUTADAPT_VERIF != 1)")
        return False
    if bad:
        ctx.mark_inconclusive("missing hook point: " + "; ".join(bad))
        return False
    return True
