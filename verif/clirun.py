"""
Fork-per-run execution of the real `cutadapt.cli.main(argv)` inside a warm shard process.

Each invocation runs in a forked child (own session / process group) with stdout/stderr
redirected to files, and exits with the status the real program would produce. A generous
wall-clock watchdog surrounds each run; when it fires, the process group is sampled to tell a
deadlock (all processes asleep, no CPU consumed between samples) from mere slowness.
"""
import logging
import os
import signal
import sys
import time
import traceback

_cli = None


def _get_cli():
    global _cli
    if _cli is None:
        import cutadapt.cli as cli

        _cli = cli
    return _cli


class RunResult:
    __slots__ = ("rc", "out", "err", "timed_out", "deadlock", "wall", "signal", "procs")

    def __init__(self):
        self.rc = None
        self.out = ""
        self.err = ""
        self.timed_out = False
        self.deadlock = None
        self.wall = 0.0
        self.signal = None
        self.procs = None

    def __repr__(self):
        return f"<RunResult rc={self.rc} timed_out={self.timed_out} deadlock={self.deadlock} err={self.err[-200:]!r}>"


def _group_state(pgid):
    """Return {pid: (state, utime+stime)} for all processes of the group/session."""
    res = {}
    for d in os.listdir("/proc"):
        if not d.isdigit():
            continue
        try:
            with open(f"/proc/{d}/stat") as f:
                s = f.read()
            rp = s.rindex(")")
            fields = s[rp + 2 :].split()
            state = fields[0]
            pgrp = int(fields[2])
            sess = int(fields[3])
            if pgrp != pgid and sess != pgid:
                continue
            res[int(d)] = (state, int(fields[11]) + int(fields[12]))
        except (OSError, ValueError):
            continue
    return res


def run(argv, cwd, tag="run", timeout=60.0, env_extra=None, stdin_path=None, pre_main=None):
    """Run cutadapt.cli.main(argv) in a forked child. Returns RunResult."""
    cli = _get_cli()
    res = RunResult()
    outp = os.path.join(cwd, f"{tag}.stdout")
    errp = os.path.join(cwd, f"{tag}.stderr")
    t0 = time.time()
    sys.stdout.flush()
    sys.stderr.flush()
    pid = os.fork()
    if pid == 0:
        rc = 70
        try:
            os.setsid()
            os.chdir(cwd)
            if env_extra:
                os.environ.update(env_extra)
            fo = os.open(outp, os.O_WRONLY | os.O_CREAT | os.O_TRUNC, 0o644)
            fe = os.open(errp, os.O_WRONLY | os.O_CREAT | os.O_TRUNC, 0o644)
            if stdin_path and stdin_path.startswith("pipe:"):
                # standard input is a pipe fed by another process (as in `cat file | cutadapt -`), not a seekable file
                fi, w = os.pipe()
                if os.fork() == 0:
                    try:
                        os.close(fi)
                        with open(stdin_path[5:], "rb") as fh:
                            data = fh.read()
                        while data:
                            n = os.write(w, data[:65536])
                            data = data[n:]
                    except BaseException:
                        pass
                    finally:
                        os._exit(0)
                os.close(w)
            else:
                fi = os.open(stdin_path or "/dev/null", os.O_RDONLY)
            os.dup2(fi, 0)
            os.dup2(fo, 1)
            os.dup2(fe, 2)
            sys.stdin = os.fdopen(0, "r", closefd=False)
            sys.stdout = os.fdopen(1, "w", closefd=False)
            sys.stderr = os.fdopen(2, "w", closefd=False)
            logging.disable(logging.NOTSET)
            for h in list(logging.root.handlers):
                logging.root.removeHandler(h)
            if pre_main is not None:
                pre_main()
            rc = 0
            try:
                cli.main(list(argv))
            except SystemExit as e:
                if e.code is None:
                    rc = 0
                elif isinstance(e.code, int):
                    rc = e.code
                else:
                    print(e.code, file=sys.stderr)
                    rc = 1
            except BaseException:
                traceback.print_exc()
                rc = 1
            try:
                from . import probe

                probe.flush()
            except Exception:
                pass
            try:
                sys.stdout.flush()
                sys.stderr.flush()
            except Exception:
                pass
        finally:
            os._exit(rc & 0xFF)
    # parent
    deadline = t0 + timeout
    status = None
    sleep = 0.0005
    while True:
        wpid, st = os.waitpid(pid, os.WNOHANG)
        if wpid == pid:
            status = st
            break
        now = time.time()
        if now > deadline:
            res.timed_out = True
            a = _group_state(pid)
            time.sleep(1.5)
            b = _group_state(pid)
            # processes that still exist and are not zombies (a dead, unreaped child cannot make progress)
            alive = [p for p in b if p in a and b[p][0] not in "ZX"]
            if alive and all(b[p][0] in "SI" for p in alive) and all(a[p][1] == b[p][1] for p in alive) \
                    and {p for p in a if a[p][0] not in "ZX"} == set(alive):
                res.deadlock = True
            else:
                res.deadlock = False
            res.procs = {str(p): b[p] for p in b}
            try:
                os.killpg(pid, signal.SIGKILL)
            except ProcessLookupError:
                pass
            _, status = os.waitpid(pid, 0)
            break
        time.sleep(sleep)
        sleep = min(sleep * 1.5, 0.02)
    res.wall = time.time() - t0
    if os.WIFEXITED(status):
        res.rc = os.WEXITSTATUS(status)
    else:
        res.signal = os.WTERMSIG(status)
        res.rc = -res.signal
    # make sure no stray processes of the run survive (daemon workers after an error)
    try:
        os.killpg(pid, signal.SIGKILL)
    except (ProcessLookupError, PermissionError):
        pass
    try:
        with open(outp, errors="replace") as f:
            res.out = f.read()
        with open(errp, errors="replace") as f:
            res.err = f.read()
    except OSError:
        pass
    return res
