"""Workload generators for CLI-level checks: inputs with unique read ids, adapter sets, option groups."""
from . import refmodel as R


def rnd(rng, n, al="ACGT"):
    return "".join(rng.choice(al) for _ in range(n))


def mutate_sub(rng, s, k):
    s = list(s)
    for _ in range(k):
        if s:
            p = rng.randrange(len(s))
            s[p] = rng.choice([c for c in "ACGT" if c != s[p].upper()] or "A")
    return "".join(s)


def mutate_indel(rng, s, k):
    s = list(s)
    for _ in range(k):
        op = rng.choice("sid")
        if op == "s" and s:
            p = rng.randrange(len(s)); s[p] = rng.choice("ACGT")
        elif op == "i":
            s.insert(rng.randrange(len(s) + 1), rng.choice("ACGT"))
        elif op == "d" and s:
            del s[rng.randrange(len(s))]
    return "".join(s)


# ---------------------------------------------------------------------------
# adapters

KINDS = ["a", "a", "a", "g", "g", "b", "a$", "g^", "aX", "gX", "linked", "rightmost"]


def gen_adapter(rng, idx, kind=None, upper=False, prefix="ad", minlen=4, maxlen=14, kinds=KINDS):
    """Returns dict(flag, name, spec, parts=[sequences to plant], kind). upper=True -> R2 flag letters."""
    kind = kind or rng.choice(kinds)
    s = rnd(rng, rng.randint(minlen, maxlen))
    name = f"{prefix}{idx}"
    parts = [s]
    if kind == "a":
        flag, spec = "-a", s
    elif kind == "g":
        flag, spec = "-g", s
    elif kind == "b":
        flag, spec = "-b", s
    elif kind == "a$":
        flag, spec = "-a", s + "$"
    elif kind == "g^":
        flag, spec = "-g", "^" + s
    elif kind == "aX":
        flag, spec = "-a", s + "X"
    elif kind == "gX":
        flag, spec = "-g", "X" + s
    elif kind == "rightmost":
        flag, spec = "-g", s + ";rightmost"
    elif kind == "linked":
        s2 = rnd(rng, rng.randint(minlen, 10))
        parts.append(s2)
        flag = rng.choice(["-a", "-g"])
        front = rng.choice(["^", ""]) + s
        back = s2 + rng.choice(["", "", "$"])
        spec = front + "..." + back
    else:
        raise ValueError(kind)
    if upper:
        flag = flag.upper()
    return dict(flag=flag, name=name, spec=spec, parts=parts, kind=kind, argv=[flag, f"{name}={spec}"])


def plant(rng, s, adapters, allow_errors=True):
    """Insert 0-2 adapter occurrences (exact / partial / with a substitution) into s."""
    if not adapters:
        return s
    for _ in range(rng.choice([0, 1, 1, 1, 2])):
        ad = rng.choice(adapters)
        parts = ad["parts"]
        kind = ad["kind"]
        if kind == "linked" and rng.random() < 0.7:
            a5, a3 = parts
            if allow_errors and rng.random() < 0.2:
                a3 = mutate_sub(rng, a3, 1)
            mid = rnd(rng, rng.randint(0, 15))
            tail = rnd(rng, rng.randint(0, 5)) if rng.random() < 0.4 else ""
            lead = rnd(rng, rng.randint(0, 3)) if rng.random() < 0.3 else ""
            if rng.random() < 0.25:
                s = lead + a5 + mid            # 3' part missing
            elif rng.random() < 0.25:
                s = mid + a3 + tail            # 5' part missing
            else:
                s = lead + a5 + mid + a3 + tail
            continue
        a = rng.choice(parts)
        r = rng.random()
        if r < 0.25:
            a = a[: rng.randint(1, len(a))]
        elif r < 0.5:
            a = a[rng.randint(0, len(a) - 1):]
        if allow_errors and rng.random() < 0.3 and len(a) > 3:
            a = mutate_sub(rng, a, 1) if rng.random() < 0.6 else mutate_indel(rng, a, 1)
        fivep = kind in ("g", "g^", "gX", "rightmost") or (kind == "b" and rng.random() < 0.5)
        if fivep:
            pos = rng.choice([0, 0, rng.randint(0, len(s))])
        else:
            pos = rng.choice([len(s), len(s), rng.randint(0, len(s))])
        s = s[:pos] + a + s[pos:]
    return s


# ---------------------------------------------------------------------------
# reads


def gen_quals(rng, n, profile=None, base=33):
    profile = profile or rng.choice(["high", "decay", "mixed", "q0", "twolevel", "lowbase", "full"])
    if profile == "high":
        q = [rng.choice([30, 35, 40]) for _ in range(n)]
    elif profile == "decay":
        k = rng.randint(0, n)
        q = [rng.choice([30, 38]) for _ in range(n - k)] + [rng.choice([2, 5, 12]) for _ in range(k)]
        if rng.random() < 0.3:
            k2 = rng.randint(0, n)
            q = [rng.choice([2, 8]) for _ in range(min(k2, n))] + q[min(k2, n):]
    elif profile == "mixed":
        q = [rng.choice([2, 12, 25, 40]) for _ in range(n)]
    elif profile == "q0":
        q = [0] * n
    elif profile == "full":
        # every quality character of the usual range, including '"' (Q1 with base 33), "'", ',' and ';'
        q = [rng.randint(0, 41) for _ in range(n)]
    elif profile == "twolevel":
        q = [rng.choice([0, 40]) for _ in range(n)]
    else:  # characters below the quality base (only meaningful with --zero-cap)
        q = [rng.choice([-3, -2, 2, 20, 40]) for _ in range(n)]
    return "".join(chr(base + x) for x in q)


HEADER_STYLES = ["plain", "casava", "comment", "lengthtag", "slash", "gtcomment"]


def gen_header(rng, i, which, n, style):
    rid = f"r{i}"
    if style == "plain":
        return rid
    if style == "casava":
        # mostly the regular Illumina shape; some headers that only look similar: ':Y:' inside an id without comment,
        # a comment that is too short, shifted by a second blank or by a two-digit read number
        if i % 5 == 3:
            rid = f"r:Y:{i}"          # the same for both mates (ids must agree)
        r = rng.random()
        if r < 0.6:
            return f"{rid} {which}:{rng.choice('YN')}:0:ACGT"
        if r < 0.7:
            return rid
        if r < 0.78:
            return f"{rid} {which}:Y"
        if r < 0.86:
            return f"{rid}  {which}:Y:0:ACGT"
        if r < 0.93:
            return f"{rid} 1{which}:Y:0:ACGT"
        return f"{rid} x:Y:"
    if style == "comment":
        return f"{rid} some comment {which}"
    if style == "gtcomment":
        # characters that start a record elsewhere ('>' and '@', '+') inside the comment of some reads
        return f"{rid} var=A>G @x +y {which}" if (i + which) % 3 == 1 else f"{rid} some comment {which}"
    if style == "lengthtag":
        return f"{rid} length={n} extra"
    if style == "slash":
        return f"{rid}/{which}"
    raise ValueError(style)


def gen_read(rng, i, which, adapters, feats):
    """feats: dict of switches: maxlen, alphabets, polya, nruns, lower, revcomp_some, qual_profile, header, allow_errors"""
    n = rng.randint(0, feats.get("maxlen", 60))
    if rng.random() < feats.get("empty_p", 0.04):
        n = 0
    al = rng.choice(feats.get("alphabets", ["ACGT", "ACGT", "ACGTN"]))
    s = rnd(rng, n, al)
    s = plant(rng, s, adapters, feats.get("allow_errors", True))
    if feats.get("polya") and rng.random() < 0.35:
        tail = "A" * rng.randint(2, 14)
        if rng.random() < 0.4 and len(tail) > 5:
            p = rng.randrange(len(tail)); tail = tail[:p] + rng.choice("CGT") + tail[p + 1:]
        if which == 2:
            s = R.revcomp(tail) + s
        else:
            s = s + tail
    if feats.get("nruns") and rng.random() < 0.3:
        s = "N" * rng.randint(0, 3) + s + "N" * rng.randint(0, 3)
    if feats.get("lower") and rng.random() < 0.15:
        s = s.lower() if rng.random() < 0.5 else "".join(c.lower() if rng.random() < 0.3 else c for c in s)
    if feats.get("revcomp_some") and rng.random() < 0.4:
        s = R.revcomp(s)
    q = gen_quals(rng, len(s), feats.get("qual_profile"), feats.get("qual_base", 33))
    style = feats.get("header") or "plain"
    if style == "random":
        style = rng.choice(HEADER_STYLES)
    return (gen_header(rng, i, which, len(s), style), s, q)


def gen_reads(rng, n, paired, adapters1, adapters2=None, **feats):
    r1, r2 = [], []
    for i in range(n):
        r1.append(gen_read(rng, i, 1, adapters1, feats))
        if paired:
            r2.append(gen_read(rng, i, 2, adapters2 if adapters2 is not None else adapters1, feats))
        # consecutive reads that share the sequence or the quality string (state kept from one read to the next,
        # e.g. a cache keyed by only one of them, must not leak)
        for lst in (r1, r2):
            if len(lst) >= 2 and rng.random() < feats.get("repeat_p", 0.06):
                (n0, s0, q0), (n1, s1, q1) = lst[-2], lst[-1]
                if rng.random() < 0.5:
                    q_new = q1 if (q1 is None or len(q1) == len(s0)) else (q1 * (len(s0) // max(1, len(q1)) + 1))[:len(s0)] if q1 else None
                    if q1 is None or q_new is not None and len(q_new) == len(s0):
                        lst[-1] = (n1, s0, q_new)
                elif q0 is not None and len(q0) == len(s1):
                    lst[-1] = (n1, s1, q0)
                elif q0 is not None and s1:
                    # same qualities need the same length: shuffle the previous read's bases instead
                    sl = list(s0)
                    rng.shuffle(sl)
                    lst[-1] = (n1, "".join(sl), q0)
    return r1, r2
