"""Independent FASTA/FASTQ reading and writing (strict), plus (de)compression helpers."""
import bz2
import gzip
import lzma
import os
import shutil
import subprocess


class ParseError(Exception):
    pass


def parse_fastq(text: str, strict=True):
    """4-line FASTQ; the final newline is optional. Returns list of (name, seq, qual)."""
    if text == "":
        return []
    lines = text.split("\n")
    if lines[-1] == "":
        lines.pop()
    if len(lines) % 4 != 0:
        raise ParseError(f"{len(lines)} lines: not a multiple of 4")
    recs = []
    for i in range(0, len(lines), 4):
        h, s, p, q = lines[i : i + 4]
        if not h.startswith("@"):
            raise ParseError(f"line {i+1}: header does not start with @")
        if not p.startswith("+"):
            raise ParseError(f"line {i+3}: separator does not start with +")
        if len(p) > 1 and p[1:] != h[1:]:
            raise ParseError(f"line {i+3}: repeated header differs")
        if len(s) != len(q):
            raise ParseError(f"line {i+4}: {len(s)} bases but {len(q)} qualities")
        if strict and any(ord(c) > 126 or ord(c) < 33 for c in q):
            raise ParseError(f"line {i+4}: quality character outside the printable range")
        recs.append((h[1:], s, q))
    return recs


def parse_fasta(text: str):
    """'>' FASTA with wrapped lines. Returns list of (name, seq, None)."""
    recs = []
    name = None
    seq = []
    for ln, line in enumerate(text.split("\n")):
        if line.endswith("\r"):
            line = line[:-1]
        if line.startswith(">"):
            if name is not None:
                recs.append((name, "".join(seq), None))
            name = line[1:]
            seq = []
        elif line.startswith("#") and name is None:
            continue
        elif line == "":
            continue
        else:
            if name is None:
                raise ParseError(f"line {ln+1}: sequence before the first header")
            seq.append(line.strip())
    if name is not None:
        recs.append((name, "".join(seq), None))
    return recs


def parse_any(text: str):
    if text.startswith(">"):
        return "fasta", parse_fasta(text)
    if text.startswith("@") or text == "":
        return "fastq", parse_fastq(text, strict=False)
    raise ParseError(f"unknown format, starts with {text[:10]!r}")


def format_fastq(recs) -> str:
    return "".join(f"@{n}\n{s}\n+\n{q}\n" for n, s, q in recs)


def format_fasta(recs, width=None) -> str:
    out = []
    for r in recs:
        n, s = r[0], r[1]
        out.append(f">{n}\n")
        if width:
            for i in range(0, len(s), width):
                out.append(s[i : i + width] + "\n")
            if not s:
                out.append("\n")
        else:
            out.append(s + "\n")
    return "".join(out)


def rid(name: str) -> str:
    """Read id: header up to the first whitespace, without a /1 or /2 suffix."""
    f = name.split(None, 1)
    i = f[0] if f else ""
    if i.endswith(("/1", "/2")):
        i = i[:-2]
    return i


_ZSTD = shutil.which("zstd")
try:  # the module xopen itself uses (Python >= 3.14: compression.zstd, else the backport)
    from compression import zstd as _zstd_mod  # type: ignore
except ImportError:
    try:
        from backports import zstd as _zstd_mod  # type: ignore
    except ImportError:
        _zstd_mod = None


def compress(data: bytes, kind: str, members: int = 1) -> bytes:
    if kind == "plain":
        return data
    if kind == "gz":
        if members <= 1:
            return gzip.compress(data, 1, mtime=0)
        # multi-member: split at line boundaries that are multiples of 4 lines when possible
        lines = data.split(b"\n")
        per = max(4, (len(lines) // members) // 4 * 4)
        out = b""
        for i in range(0, len(lines), per):
            chunk = b"\n".join(lines[i : i + per])
            if i + per < len(lines):
                chunk += b"\n"
            out += gzip.compress(chunk, 1, mtime=0)
        return out
    if kind == "bz2":
        return bz2.compress(data, 1)
    if kind == "xz":
        return lzma.compress(data, preset=0)
    if kind == "zst":
        if _zstd_mod is not None:
            return _zstd_mod.compress(data)
        if _ZSTD is None:
            raise RuntimeError("no zstd module or binary available")
        return subprocess.run([_ZSTD, "-q", "-1", "-c"], input=data, capture_output=True, check=True).stdout
    raise ValueError(kind)


def decompress_bytes(data: bytes, kind: str) -> bytes:
    """Python's own decompressors as ground truth for whether a damaged stream still decodes."""
    if kind == "gz":
        return gzip.decompress(data)
    if kind == "bz2":
        return bz2.decompress(data)
    if kind == "xz":
        return lzma.decompress(data)
    raise ValueError(kind)


def decompress_file(path: str) -> bytes:
    with open(path, "rb") as f:
        data = f.read()
    if data[:2] == b"\x1f\x8b":
        return gzip.decompress(data)
    if data[:3] == b"BZh":
        return bz2.decompress(data)
    if data[:6] == b"\xfd7zXZ\x00":
        return lzma.decompress(data)
    if data[:4] == b"\x28\xb5\x2f\xfd":
        if _zstd_mod is not None:
            return _zstd_mod.decompress(data)
        if _ZSTD is None:
            raise RuntimeError("no zstd module or binary available")
        return subprocess.run([_ZSTD, "-q", "-d", "-c"], input=data, capture_output=True, check=True).stdout
    return data


def read_records(path: str):
    """Returns (format, records) of a possibly compressed output file; None if missing."""
    if not os.path.exists(path):
        return None
    text = decompress_file(path).decode("ascii", "replace")
    return parse_any(text)


def format_ubam(recs) -> bytes:
    """Unaligned BAM (SAM specification, section 4) holding the records (name, sequence, qualities as Phred+33 text),
    written as BGZF blocks of at most 60000 bytes followed by the empty end-of-file block."""
    import struct
    import zlib

    def block(data: bytes) -> bytes:
        c = zlib.compressobj(6, zlib.DEFLATED, -15)
        comp = c.compress(data) + c.flush()
        head = struct.pack("<BBBBIBBHBBHH", 31, 139, 8, 4, 0, 0, 255, 6, 66, 67, 2, len(comp) + 25)
        return head + comp + struct.pack("<II", zlib.crc32(data), len(data))

    text = b"@HD\tVN:1.6\tSO:unsorted\n"
    payload = b"BAM\x01" + struct.pack("<i", len(text)) + text + struct.pack("<i", 0)
    codes = "=ACMGRSVTWYHKDBN"
    for name, seq, qual in recs:
        rn = name.split()[0].encode() + b"\0"
        nib = [codes.index(ch) for ch in seq.upper()]
        if len(nib) % 2:
            nib.append(0)
        packed = bytes((nib[i] << 4) | nib[i + 1] for i in range(0, len(nib), 2))
        rec = struct.pack("<iiBBHHHiiii", -1, -1, len(rn), 0, 4680, 0, 4, len(seq), -1, -1, 0) + rn + packed + bytes(ord(ch) - 33 for ch in qual)
        payload += struct.pack("<i", len(rec)) + rec
    out = b""
    for i in range(0, len(payload), 60000):
        out += block(payload[i:i + 60000])
    return out + block(b"")
