"""Entry point of one shard process: python -m verif.shard <ID> ..."""
from .harness import shard_main

if __name__ == "__main__":
    shard_main()
