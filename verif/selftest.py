"""
Self-validation of the monitors.

  python -m verif.selftest mutants [ID ...]   apply each deliberate break (selftest/mutants.json) to a scratch copy of
                                              /repo/src, point VERIF_REPO at it, run the property's quick check and
                                              expect exit status 1
  python -m verif.selftest seeded [ID ...]    the same for the independently produced changes under /verif/seeded/<id>/
  python -m verif.selftest sweep [--tier T] [--seeds 1,2,3] [ID ...]
                                              run the checks on the unchanged tree for several VERIF_SEED values and
                                              expect exit status 0 (silence)

Scratch copies live under $TMPDIR (outside /repo and /verif) and are deleted after each use, together with the
stage built from them.
"""
import argparse
import json
import os
import shutil
import subprocess
import sys
import tempfile
import time

ROOT = os.path.dirname(os.path.dirname(os.path.abspath(__file__)))
MUTANTS = os.path.join(ROOT, "selftest", "mutants.json")
SEEDED = os.path.join(ROOT, "seeded")
PY = "/venv/bin/python"


def scratch_copy():
    d = tempfile.mkdtemp(prefix="verif-selftest-")
    shutil.copytree("/repo/src", os.path.join(d, "src"), ignore=shutil.ignore_patterns("*.so", "__pycache__", "*.egg-info"))
    return d


def run_check(cid, repo, tier="quick", seed=0, timeout=1800):
    env = dict(os.environ, VERIF_REPO=repo, VERIF_SEED=str(seed))
    t = time.time()
    try:
        r = subprocess.run([PY, "-m", "verif", cid, "--tier", tier], cwd=ROOT, env=env, capture_output=True, text=True, timeout=timeout)
        rc, out = r.returncode, r.stdout + r.stderr
    except subprocess.TimeoutExpired as e:
        rc, out = 124, (e.stdout or b"").decode(errors="replace") if isinstance(e.stdout, bytes) else str(e.stdout)
    return rc, out, time.time() - t


def clean_stages(repo):
    # stages are keyed by content hash; remove those not belonging to /repo's current tree
    subprocess.run([PY, "-c", "from verif import stage; import os, shutil; keep=set();\n"
                    "[keep.add(os.path.basename(stage.ensure(v))) for v in ('plain',)]"], cwd=ROOT, capture_output=True)


def apply_mutant(d, m):
    path = os.path.join(d, "src", "cutadapt", m["file"])
    with open(path) as f:
        s = f.read()
    if s.count(m["old"]) != 1:
        raise RuntimeError(f"mutant {m['id']}: anchor occurs {s.count(m['old'])} times in {m['file']}")
    with open(path, "w") as f:
        f.write(s.replace(m["old"], m["new"]))


def cmd_mutants(ids):
    with open(MUTANTS) as f:
        mutants = json.load(f)
    results = []
    for m in mutants:
        if ids and m["id"] not in ids and m["property"] not in ids:
            continue
        d = scratch_copy()
        try:
            apply_mutant(d, m)
            rows = []
            for cid in m.get("checks", [m["property"]]):
                rc, out, wall = run_check(cid, d)
                last = [l for l in out.strip().splitlines() if l.startswith(("VIOLATION", "HELD", "INCONCLUSIVE"))]
                rows.append((cid, rc, wall, last[-1] if last else out.strip()[-200:]))
            caught = any(rc == 1 for _, rc, _, _ in rows)
            results.append((m["id"], m["property"], caught, rows))
            print(f"{'CAUGHT' if caught else 'MISSED'} {m['id']} ({m['property']}: {m['desc']}) " +
                  "; ".join(f"{cid} rc={rc} {wall:.0f}s" for cid, rc, wall, _ in rows), flush=True)
            if not caught:
                for cid, rc, wall, last in rows:
                    print("     ", cid, last[:300])
        except Exception as e:
            print(f"ERROR {m['id']}: {e}", flush=True)
            results.append((m["id"], m["property"], None, str(e)))
        finally:
            shutil.rmtree(d, ignore_errors=True)
    prune_builds()
    n = sum(1 for r in results if r[2])
    print(f"{n}/{len(results)} mutants caught")
    return 0 if n == len(results) else 1


def cmd_seeded(ids):
    results = []
    for sid in sorted(os.listdir(SEEDED)) if os.path.isdir(SEEDED) else []:
        sdir = os.path.join(SEEDED, sid)
        meta_p = os.path.join(sdir, "meta.json")
        if not os.path.exists(meta_p):
            continue
        with open(meta_p) as f:
            meta = json.load(f)
        if ids and sid not in ids and meta["property"] not in ids:
            continue
        if meta.get("neutralised"):
            print(f"NEUTRALISED seeded/{sid}: {meta['neutralised'][:160]}", flush=True)
            continue
        d = scratch_copy()
        try:
            r = subprocess.run(["patch", "-p1", "-d", d, "-i", os.path.join(sdir, "patch.diff")], capture_output=True, text=True)
            if r.returncode != 0:
                print(f"ERROR {sid}: patch does not apply: {r.stdout[-300:]}")
                continue
            rows = []
            kinds = set()
            for cid in meta.get("checks", [meta["property"]]):
                rc, out, wall = run_check(cid, d)
                last = [l for l in out.strip().splitlines() if l.startswith(("VIOLATION", "HELD", "INCONCLUSIVE"))]
                rows.append((cid, rc, wall, last[-1] if last else out.strip()[-200:]))
                kinds.update(l.split("kind=", 1)[1].split(":", 1)[0] for l in out.splitlines() if "violation kind=" in l)
            caught = any(rc == 1 for _, rc, _, _ in rows)
            results.append((sid, caught))
            print(f"{'CAUGHT' if caught else 'MISSED'} seeded/{sid} ({meta['property']}) " +
                  "; ".join(f"{cid} rc={rc} {wall:.0f}s" for cid, rc, wall, _ in rows) +
                  (" kinds=" + ",".join(sorted(kinds)) if kinds else ""), flush=True)
            if not caught:
                for cid, rc, wall, last in rows:
                    print("     ", cid, last[:300])
        finally:
            shutil.rmtree(d, ignore_errors=True)
    prune_builds()
    n = sum(1 for r in results if r[1])
    print(f"{n}/{len(results)} seeded changes caught")
    return 0 if n == len(results) else 1


def prune_builds():
    """Remove stages that do not belong to /repo's current tree (built from scratch copies)."""
    sys.path.insert(0, ROOT)
    from verif import stage

    keep = set()
    for v in ("plain", "asan"):
        try:
            full, nat = stage._hash_inputs(v)
            keep.add(f"{v}-{full}")
            keep.add(f"native-{v}-{nat}")
        except Exception:
            pass
    for e in os.listdir(stage.BUILD_ROOT):
        p = os.path.join(stage.BUILD_ROOT, e)
        if os.path.isdir(p) and e not in keep:
            shutil.rmtree(p, ignore_errors=True)


def cmd_sweep(ids, tier, seeds):
    ids = ids or [f"C{i:02d}" for i in range(1, 21)]
    bad = 0
    for seed in seeds:
        for cid in ids:
            rc, out, wall = run_check(cid, "/repo", tier=tier, seed=seed, timeout=7200)
            last = [l for l in out.strip().splitlines() if l.startswith(("VIOLATION", "HELD", "INCONCLUSIVE"))]
            ok = rc == 0
            bad += not ok
            print(f"{'ok  ' if ok else 'FAIL'} {cid} tier={tier} seed={seed} rc={rc} {wall:.0f}s {last[-1] if last else out.strip()[-200:]}", flush=True)
            if not ok:
                print(out[-1500:])
    print(f"{bad} non-silent runs")
    return 1 if bad else 0


def main():
    ap = argparse.ArgumentParser()
    ap.add_argument("what", choices=["mutants", "seeded", "sweep"])
    ap.add_argument("ids", nargs="*")
    ap.add_argument("--tier", default="quick")
    ap.add_argument("--seeds", default="1,2,3")
    a = ap.parse_args()
    if a.what == "mutants":
        return cmd_mutants(set(a.ids))
    if a.what == "seeded":
        return cmd_seeded(set(a.ids))
    return cmd_sweep(a.ids, a.tier, [int(x) for x in a.seeds.split(",")])


if __name__ == "__main__":
    sys.exit(main())
