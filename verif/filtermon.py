"""
Shared scenario generator / observer for the filtering, accounting, pairing and demultiplexing
properties (C04, C05, C11, C15).

One observation = a baseline run of the real tool (same adapters and modifiers, no filters, names
tagged with the last adapter) + the main run with filters, redirects, demultiplexing and reports.
The reference fate of every read (pair) is predicted from the baseline records with the documented
predicates, in the documented order; the actual fate is read off the produced files.
"""
import itertools
import json
import math
import os
import re
import shutil

from . import climon, fastx, gen_cli as G, refmodel as R

FILTER_ORDER = ["too_short", "too_long", "too_many_n", "too_many_expected_errors", "too_high_average_error_rate",
                "casava_filtered", "discard_trimmed", "discard_untrimmed"]
TAG = " ##"


def parse_lens(v):
    if ":" in v:
        a, b = v.split(":")
        return (int(a) if a else None, int(b) if b else None)
    return (int(v), int(v))


class Scenario:
    pass


def gen_base(rng, want):
    """Adapters, modifiers and reads (everything that the baseline run needs)."""
    sc = Scenario()
    sc.paired = rng.random() < want.get("paired_p", 0.5)
    if want.get("demux") == "combinatorial":
        sc.paired = True
    kinds = want.get("kinds", ["a", "a", "g", "b", "a$", "g^", "linked"])
    sc.ads1 = [G.gen_adapter(rng, i, kinds=kinds) for i in range(rng.randint(1, 3))]
    sc.ads2 = []
    if sc.paired and (rng.random() < 0.55 or want.get("demux") == "combinatorial"):
        sc.ads2 = [G.gen_adapter(rng, i, upper=True, prefix="bd", kinds=kinds) for i in range(rng.randint(1, 2))]
    if sc.paired and not sc.ads2 and rng.random() < 0.15 and not want.get("demux"):
        # adapters on R2 only
        sc.ads2 = [G.gen_adapter(rng, 0, upper=True, prefix="bd", kinds=kinds)]
        sc.ads1 = []
    if len(sc.ads1) >= 2 and rng.random() < want.get("shared_names_p", 0.0):
        # two differently sequenced adapters under one name
        sc.ads1[1]["name"] = sc.ads1[0]["name"]
        sc.ads1[1]["argv"] = [sc.ads1[1]["flag"], f"{sc.ads1[1]['name']}={sc.ads1[1]['spec']}"]
    sc.pair_adapters = False
    if sc.paired and sc.ads1 and sc.ads2 and rng.random() < 0.2 and want.get("demux") != "combinatorial":
        simple = ["a", "g", "a$", "g^"]
        sc.ads1 = [G.gen_adapter(rng, i, kinds=simple) for i in range(len(sc.ads1))]
        sc.ads2 = [G.gen_adapter(rng, i, upper=True, prefix="bd", kinds=simple) for i in range(len(sc.ads1))]
        sc.pair_adapters = True
        if rng.random() < 0.4:
            # two ranks share the adapter sequence on one side (different names / tolerances / partners)
            if len(sc.ads1) < 2:
                sc.ads1.append(G.gen_adapter(rng, 1, kinds=simple))
                sc.ads2.append(G.gen_adapter(rng, 1, upper=True, prefix="bd", kinds=simple))
            side = sc.ads1 if rng.random() < 0.6 else sc.ads2
            a0, a1 = side[0], side[1]
            a1["kind"], a1["parts"], a1["flag"] = a0["kind"], list(a0["parts"]), a0["flag"]
            a1["spec"] = a0["spec"] + rng.choice(["", ";e=0", ";e=0.25"])
            a1["argv"] = [a1["flag"], f"{a1['name']}={a1['spec']}"]
    if rng.random() < want.get("odd_names_p", 0.0):
        # adapter names are free text: punctuation that is legal in file names, and names that differ only in it
        ch = rng.choice([":", "|", "+", ".", "-", "~", ",", "@"])
        for side in (sc.ads1, sc.ads2):
            for j, a in enumerate(side):
                base_name = a["name"] if j == 0 or rng.random() < 0.5 else side[0]["name"].replace(ch, "_")
                if j == 0 or base_name == a["name"]:
                    nm = a["name"][:2] + ch + a["name"][2:]
                else:
                    nm = base_name          # collides with the first one once punctuation is mapped to '_'
                a["argv"] = [a["flag"], a["argv"][1].replace(a["name"] + "=", nm + "=", 1)]
                a["name"] = nm
    if rng.random() < want.get("empty_name_p", 0.0):
        # the empty name is a name like any other ("-g =^ACGT")
        side = rng.choice([x for x in (sc.ads1, sc.ads2) if x])
        a = side[rng.randrange(len(side))]
        a["argv"] = [a["flag"], a["argv"][1].replace(a["name"] + "=", "=", 1)]
        a["name"] = ""
    if rng.random() < want.get("unknown_name_p", 0.0):
        # an adapter that happens to be called like the file for reads without adapter
        for side in ([sc.ads1] if rng.random() < 0.6 else [sc.ads1, sc.ads2]):
            if side:
                a = side[rng.randrange(len(side))]
                a["argv"] = [a["flag"], a["argv"][1].replace(a["name"] + "=", "unknown=", 1)]
                a["name"] = "unknown"
    sc.revcomp = bool(sc.paired and rng.random() < want.get("revcomp_p", 0.0))
    if sc.revcomp:
        return gen_base_revcomp(rng, want, sc)
    sc.times = 1 if sc.pair_adapters else rng.choice([1, 1, 1, 2])
    sc.mods = []
    if rng.random() < 0.15:
        sc.mods += ["--nextseq-trim", rng.choice(["10", "20"])]
    if rng.random() < 0.35:
        sc.mods += ["-q", rng.choice(["10", "15,5", "20"])]
        if sc.paired and rng.random() < 0.3:
            sc.mods += ["-Q", rng.choice(["0", "5", "25", "5,20"])]
    elif sc.paired and rng.random() < 0.12:
        # only R2 is quality-trimmed
        sc.mods += ["-Q", rng.choice(["10", "20", "15,5"])]
    if rng.random() < 0.25:
        sc.mods += ["--trim-n"]
    if rng.random() < 0.2:
        sc.mods += ["-u", str(rng.choice([1, 2, -2]))]
    if sc.paired and rng.random() < 0.15:
        sc.mods += ["-U", str(rng.choice([1, -1]))]
    if rng.random() < 0.2:
        sc.mods += ["--poly-a"]
    sc.adargs = [x for a in sc.ads1 + sc.ads2 for x in a["argv"]]
    sc.adargs += ["-e", rng.choice(["0.1", "0.2"]), "-O", str(rng.choice([3, 4])), "-n", str(sc.times)]
    lower_case = False
    if sc.pair_adapters:
        sc.adargs += ["--pair-adapters"]
        if rng.random() < want.get("pair_adapters_lowercase_p", 0.0):
            # the reads keep their length; pairs without a match of one rank must come out exactly as they went in
            sc.adargs += ["--action", "lowercase"]
            lower_case = True
    feats = dict(maxlen=want.get("maxlen", 36), polya="--poly-a" in sc.mods, nruns=True, header=rng.choice(["plain", "casava", "casava", "comment"]),
                 qual_profile=rng.choice(["high", "decay", "mixed", "q0", "twolevel", "mixed"]), alphabets=["ACGT", "ACGTN", "ACGTNn"], allow_errors=True, lower=lower_case)
    sc.recs1, sc.recs2 = G.gen_reads(rng, rng.randint(*want.get("nreads", (12, 40))), sc.paired, sc.ads1 or sc.ads2, sc.ads2 or sc.ads1, **feats)
    if not sc.paired:
        sc.recs2 = None
    return sc


def gen_base_revcomp(rng, want, sc):
    """Paired --revcomp: one adapter per side (or one side only), nothing else modifies the reads, and the mates of about
    half of the pairs are exchanged in the input, so that the matches are found in the swapped orientation."""
    simple = ["g^", "g^", "a", "g"]
    r = rng.random()
    sc.ads1 = [G.gen_adapter(rng, 0, kinds=simple, minlen=8, maxlen=12)] if r < 0.85 else []
    sc.ads2 = [G.gen_adapter(rng, 0, upper=True, prefix="bd", kinds=simple, minlen=8, maxlen=12)] if (r >= 0.15 or want.get("demux") == "combinatorial") else []
    if want.get("demux") == "combinatorial" and not sc.ads1:
        sc.ads1 = [G.gen_adapter(rng, 0, kinds=simple, minlen=8, maxlen=12)]
    sc.pair_adapters = False
    sc.times = 1
    sc.mods = []
    sc.adargs = [x for a in sc.ads1 + sc.ads2 for x in a["argv"]] + ["-e", "0.1", "-O", "5", "--revcomp"]
    feats = dict(maxlen=36, nruns=False, header=rng.choice(["plain", "casava", "comment"]), qual_profile=rng.choice(["high", "mixed", "decay"]),
                 alphabets=["ACGT"], allow_errors=False, empty_p=0.0)
    n = rng.randint(*want.get("nreads", (12, 40)))
    recs1, recs2 = [], []
    for i in range(n):
        a = G.gen_read(rng, i, 1, sc.ads1, feats)
        b = G.gen_read(rng, i, 2, sc.ads2, feats)
        if rng.random() < 0.45:
            a, b = b, a
        recs1.append(a)
        recs2.append(b)
    sc.recs1, sc.recs2 = recs1, recs2
    return sc


def run_baseline_revcomp(d, sc):
    """Filter-free run with --revcomp. What each written mate is - exchanged or not, shortened by an adapter or not - is read
    off the records themselves (' rc' at the end of the name, length against the input mate it comes from), not off the
    match lists of the program."""
    inputs = climon.write_inputs(d, sc.recs1, sc.recs2)
    argv = sc.adargs + ["-o", "b1.fq", "-p", "b2.fq"] + inputs
    run = climon.run(d, argv, tag="base", trace=False)
    sc.inputs = inputs
    sc.base_argv = argv
    if run.rc != 0:
        return None, run
    fo1, fo2 = run.records("b1.fq"), run.records("b2.fq")
    if not fo1 or not fo2 or fo1[0] == "error" or fo2[0] == "error" or len(fo1[1]) != len(sc.recs1) or len(fo2[1]) != len(sc.recs1):
        return None, run
    out = {1: [], 2: []}
    for k, (o1, o2) in enumerate(zip(fo1[1], fo2[1])):
        swapped = o1[0].endswith(" rc")
        src = (sc.recs2[k], sc.recs1[k]) if swapped else (sc.recs1[k], sc.recs2[k])
        for side, o, srcrec, ads in ((1, o1, src[0], sc.ads1), (2, o2, src[1], sc.ads2)):
            trimmed = len(o[1]) < len(srcrec[1])
            out[side].append(dict(name=o[0][:-3] if o[0].endswith(" rc") else o[0], seq=o[1], qual=o[2], trimmed=trimmed,
                                  adapter=ads[0]["name"] if (trimmed and ads) else "no_adapter", swapped=swapped))
    sc.base = out
    return out, run


def run_baseline(d, sc):
    if getattr(sc, "revcomp", False):
        return run_baseline_revcomp(d, sc)
    inputs = climon.write_inputs(d, sc.recs1, sc.recs2)
    argv = sc.adargs + sc.mods + ["--rename", "{header}" + TAG + "{adapter_name}", "-o", "b1.fq"] + (["-p", "b2.fq"] if sc.paired else []) + inputs
    run = climon.run(d, argv, tag="base", trace=False)
    sc.inputs = inputs
    sc.base_argv = argv
    if run.rc != 0:
        return None, run
    out = {}
    for side, fn in ((1, "b1.fq"), (2, "b2.fq")):
        if side == 2 and not sc.paired:
            continue
        fo = run.records(fn)
        if fo is None or fo[0] == "error":
            return None, run
        recs = []
        for name, s, q in fo[1]:
            true_name, _, tag = name.rpartition(TAG)
            recs.append(dict(name=true_name, seq=s, qual=q, adapter=tag, trimmed=tag != "no_adapter"))
        out[side] = recs
    if sc.pair_adapters and sc.paired:
        # two ranks may share the adapter sequence on one side; the name the program attaches to such a match is what is
        # being tested, so on that side the name is taken from the partner's rank (both mates are trimmed by one rank)
        n1, n2 = [a["name"] for a in sc.ads1], [a["name"] for a in sc.ads2]
        d1 = len({a["spec"] for a in sc.ads1}) < len(sc.ads1)
        d2 = len({a["spec"] for a in sc.ads2}) < len(sc.ads2)
        if d1 != d2 and len(n1) == len(n2):
            for r1, r2 in zip(out[1], out[2]):
                if r1["trimmed"] and r2["trimmed"]:
                    if d1 and r2["adapter"] in n2:
                        r1["adapter"] = n1[n2.index(r2["adapter"])]
                    elif d2 and r1["adapter"] in n1:
                        r2["adapter"] = n2[n1.index(r1["adapter"])]
            sc.shared_pair_adapter = True
    sc.base = out
    return out, run


def ee_exact(q):
    return R.expected_errors(q)


def choose_filters(rng, sc, want):
    """Filter options with boundary-targeted thresholds chosen from the baseline's observed values."""
    b1 = sc.base[1]
    b2 = sc.base.get(2)
    lens = sorted({len(r["seq"]) for r in b1} | ({len(r["seq"]) for r in b2} if b2 else set()))
    opts = {}
    args = []
    paired = sc.paired
    two_files = redirects_two_files(sc)

    def lenval():
        v = rng.choice(lens)
        return max(0, v + rng.choice([-1, 0, 0, 0, 1]))

    demux = want.get("demux")
    scale = want.get("filter_scale", 1.0)
    if rng.random() < 0.6 * scale:
        v = lenval()
        s = str(v)
        if paired and rng.random() < 0.5:
            s = rng.choice([f"{v}:", f":{v}", f"{v}:{lenval()}"])
        opts["m"] = s
        args += ["-m", s]
        if rng.random() < 0.5:
            opts["too_short_out"] = True
            args += ["--too-short-output", "ts1.fq"] + (["--too-short-paired-output", "ts2.fq"] if two_files else [])
    if rng.random() < 0.45 * scale:
        v = lenval()
        s = str(v)
        if paired and rng.random() < 0.5:
            s = rng.choice([f"{v}:", f":{v}", f"{v}:{lenval()}"])
        opts["M"] = s
        args += ["-M", s]
        if rng.random() < 0.5:
            opts["too_long_out"] = True
            args += ["--too-long-output", "tl1.fq"] + (["--too-long-paired-output", "tl2.fq"] if two_files else [])
    if rng.random() < 0.4 * scale:
        ncounts = sorted({R.n_count(r["seq"]) for r in b1})
        v = rng.choice([str(rng.choice(ncounts)), "0", "1", "2", "0.1", "0.25", "0.5", "1.5", "2.5"])
        opts["max_n"] = v
        args += ["--max-n", v]
    if rng.random() < 0.4 * scale:
        q0 = [len(r["qual"]) for r in b1 if r["qual"] and set(r["qual"]) == {"!"}]
        v = str(rng.choice(q0)) if q0 and rng.random() < 0.6 else rng.choice(["0", "1", "2", "5", "10"])
        opts["max_ee"] = v
        args += ["--max-ee", v]
    if rng.random() < 0.35 * scale:
        v = rng.choice(["0.1", "0.5", "0.9", "0.01"])  # 0 and 1 are rejected by the tool
        opts["max_aer"] = v
        args += ["--max-aer", v]
    if rng.random() < 0.3 * scale:
        opts["casava"] = True
        args += ["--discard-casava"]
    x = rng.random()
    if demux:
        if x < 0.3:
            opts["discard_untrimmed"] = True
            args += ["--discard-untrimmed"]
        elif x < 0.5 and demux == "normal":
            opts["untrimmed_output"] = True
            args += ["--untrimmed-output", "ut1.fq"] + (["--untrimmed-paired-output", "ut2.fq"] if two_files else [])
    else:
        if x < 0.2:
            opts["discard_trimmed"] = True
            args += ["--discard-trimmed"]
        elif x < 0.4:
            opts["discard_untrimmed"] = True
            args += ["--discard-untrimmed"]
        elif x < 0.6:
            opts["untrimmed_output"] = True
            args += ["--untrimmed-output", "ut1.fq"] + (["--untrimmed-paired-output", "ut2.fq"] if two_files else [])
    opts["pair_filter"] = None
    if paired and rng.random() < 0.6:
        opts["pair_filter"] = rng.choice(["any", "both", "first"])
        args += ["--pair-filter", opts["pair_filter"]]
    sc.fopts = opts
    sc.fargs = args
    sc.demux = demux
    return opts


def predicates(opts):
    """(name, f1, f2): reference predicates on a baseline record dict; None = that side is not looked at."""
    P = []
    if "m" in opts:
        a, b = parse_lens(opts["m"])
        P.append(("too_short", (lambda r, a=a: len(r["seq"]) < a) if a is not None else None,
                  (lambda r, b=b: len(r["seq"]) < b) if b is not None else None))
    if "M" in opts:
        a, b = parse_lens(opts["M"])
        P.append(("too_long", (lambda r, a=a: len(r["seq"]) > a) if a is not None else None,
                  (lambda r, b=b: len(r["seq"]) > b) if b is not None else None))
    if "max_n" in opts:
        v = opts["max_n"]

        def fn(r, v=v):
            res, borderline = R.too_many_n(r["seq"], v)
            return "skip" if borderline else res
        P.append(("too_many_n", fn, fn))
    if "max_ee" in opts:
        thr = float(opts["max_ee"])

        def fee(r, thr=thr):
            q = r["qual"] or ""
            e = ee_exact(q)
            if set(q) <= {"!"}:
                return len(q) > thr
            if abs(e - thr) <= 1e-5 * max(1.0, e):
                return "skip"
            return e > thr
        P.append(("too_many_expected_errors", fee, fee))
    if "max_aer" in opts:
        thr = float(opts["max_aer"])

        def faer(r, thr=thr):
            q = r["qual"] or ""
            if len(r["seq"]) == 0:
                return False
            e = ee_exact(q) / len(r["seq"])
            if abs(e - thr) <= 1e-6:
                return "skip"
            return e > thr
        P.append(("too_high_average_error_rate", faer, faer))
    if opts.get("casava"):
        f = lambda r: R.casava_filtered(r["name"])
        P.append(("casava_filtered", f, f))
    if opts.get("discard_trimmed"):
        f = lambda r: r["trimmed"]
        P.append(("discard_trimmed", f, f))
    if opts.get("discard_untrimmed") or opts.get("untrimmed_output"):
        f = lambda r: not r["trimmed"]
        P.append(("discard_untrimmed", f, f))
    return P


def predict(sc):
    """Reference fate of every read (pair): ('out'|filter name|'skip') keyed by read id, in input order."""
    opts = sc.fopts
    P = predicates(opts)
    mode = opts.get("pair_filter") or "any"
    fates = {}
    order = []
    for k in range(len(sc.base[1])):
        r1 = sc.base[1][k]
        r2 = sc.base[2][k] if sc.paired else None
        fate = "out"
        for name, f1, f2 in P:
            if name == "discard_untrimmed" and sc.demux:
                continue  # handled by the demultiplexer below
            if not sc.paired:
                hit = f1(r1)
            else:
                m_ = mode
                if name == "discard_untrimmed" and (not sc.ads1 or not sc.ads2):
                    m_ = "both"
                if f2 is None:
                    hit = f1(r1)
                elif f1 is None:
                    hit = f2(r2)
                else:
                    h1, h2 = f1(r1), f2(r2)
                    if m_ == "first":
                        hit = h1
                    elif "skip" in (h1, h2):
                        # undecidable side: decided only if the other side settles it
                        other = h2 if h1 == "skip" else h1
                        if other == "skip":
                            hit = "skip"
                        elif m_ == "any":
                            hit = True if other else "skip"
                        else:
                            hit = False if not other else "skip"
                    elif m_ == "any":
                        hit = h1 or h2
                    else:
                        hit = h1 and h2
            if hit == "skip":
                fate = "skip"
                break
            if hit:
                fate = name
                break
        if fate == "out" and sc.demux:
            fate = demux_fate(sc, r1, r2)
        key = fastx.rid(r1["name"])
        fates[key] = fate
        order.append(key)
    sc.fates = fates
    sc.order = order
    return fates


def demux_fate(sc, r1, r2):
    opts = sc.fopts
    if sc.demux == "normal":
        if r1["trimmed"]:
            return "demux:" + r1["adapter"]
        if opts.get("discard_untrimmed"):
            return "discard_untrimmed"
        if opts.get("untrimmed_output"):
            return "untrimmed_file"
        return "demux:unknown"
    n1 = r1["adapter"] if r1["trimmed"] else "unknown"
    n2 = r2["adapter"] if r2["trimmed"] else "unknown"
    if opts.get("discard_untrimmed") and not (r1["trimmed"] and r2["trimmed"]):
        return "discard_untrimmed"
    return f"demux:{n1}/{n2}"


def redirects_two_files(sc):
    """Whether the redirect options get two files; by default as the main output, but the two can be mixed."""
    if not sc.paired:
        return False
    r = getattr(sc, "redirect_two", None)
    return (not getattr(sc, "interleaved_out", False)) if r is None else r


TEMPLATES = {
    # style: (normal -o, normal -p, combinatorial -o, combinatorial -p); the placeholder may sit anywhere in the path
    "file": ("dm.{name}.1.fq", "dm.{name}.2.fq", "cb.{name1}.{name2}.1.fq", "cb.{name1}.{name2}.2.fq"),
    "dir": ("dmd.{name}/r.1.fq", "dmd.{name}/r.2.fq", "cbd.{name1}.{name2}/r.1.fq", "cbd.{name1}.{name2}/r.2.fq"),
    "dir-and-file": ("dmd.{name}/x.{name}.1.fq", "dmd.{name}/x.{name}.2.fq", "cbd.{name1}/{name2}.{name1}.1.fq", "cbd.{name1}/{name2}.{name1}.2.fq"),
    "start": ("{name}.1.fq", "{name}.2.fq", "{name2}.{name1}.1.fq", "{name2}.{name1}.2.fq"),
}


def template(sc, which):
    t = TEMPLATES[getattr(sc, "template_style", "file")]
    return t[{"o": 0, "p": 1, "co": 2, "cp": 3}[which]]


def expand(t, **names):
    for k, v in names.items():
        t = t.replace("{" + k + "}", v)
    return t


def output_layout(sc):
    """Destination name -> (file1, file2|None) for every file the main run is expected to create."""
    files = {}
    opts = sc.fopts
    p = sc.paired and not getattr(sc, "interleaved_out", False)
    pr = redirects_two_files(sc)
    if opts.get("too_short_out"):
        files["too_short"] = ("ts1.fq", "ts2.fq" if pr else None)
    if opts.get("too_long_out"):
        files["too_long"] = ("tl1.fq", "tl2.fq" if pr else None)
    if sc.demux == "normal":
        names = list(dict.fromkeys(a["name"] for a in sc.ads1))
        for n in names:
            files["demux:" + n] = (expand(template(sc, "o"), name=n), expand(template(sc, "p"), name=n) if p else None)
        if opts.get("untrimmed_output"):
            files["untrimmed_file"] = ("ut1.fq", "ut2.fq" if pr else None)
        elif not opts.get("discard_untrimmed"):
            files["demux:unknown"] = (expand(template(sc, "o"), name="unknown"), expand(template(sc, "p"), name="unknown") if p else None)
    elif sc.demux == "combinatorial":
        n1s = list(dict.fromkeys(a["name"] for a in sc.ads1))
        n2s = list(dict.fromkeys(a["name"] for a in sc.ads2))
        combos = list(itertools.product(n1s, n2s))
        if not opts.get("discard_untrimmed"):
            combos += [("unknown", "unknown")] + [("unknown", b) for b in n2s] + [(a, "unknown") for a in n1s]
        for a, b in combos:
            files[f"demux:{a}/{b}"] = (expand(template(sc, "co"), name1=a, name2=b), expand(template(sc, "cp"), name1=a, name2=b))
    else:
        files["out"] = ("o1.fq", "o2.fq" if p else None)
        if opts.get("untrimmed_output"):
            files["discard_untrimmed"] = ("ut1.fq", "ut2.fq" if pr else None)
    return files


def main_argv(sc, report=None, cores=1, extra=()):
    p = sc.paired and not getattr(sc, "interleaved_out", False)
    if sc.paired and not p:
        extra = list(extra) + ["--interleaved"]
    if sc.demux == "normal":
        io = ["-o", template(sc, "o")] + (["-p", template(sc, "p")] if p else [])
    elif sc.demux == "combinatorial":
        io = ["-o", template(sc, "co"), "-p", template(sc, "cp")]
    else:
        io = ["-o", "o1.fq"] + (["-p", "o2.fq"] if p else [])
    argv = sc.adargs + sc.mods + sc.fargs + ["--json", "rep.json"] + list(extra)
    if report:
        argv += ["--report", report]
    if cores > 1:
        argv += ["-j", str(cores), "--buffer-size", "1500"]
    return argv + io + sc.inputs


def observe(ctx, rng, d, want):
    """Run baseline + main; returns the scenario with .run, .files (parsed), .membership, or None if unusable."""
    sc = gen_base(rng, want)
    base, brun = run_baseline(d, sc)
    if base is None:
        ctx.count("baseline_failed")
        ctx.extra.setdefault("baseline_failed_example", (sc.base_argv, brun.err[-300:]))
        return None
    if len(base[1]) != len(sc.recs1):
        ctx.count("baseline_record_count_differs")
        return None
    sc.interleaved_out = bool(sc.paired and not want.get("demux") and rng.random() < want.get("interleaved_p", 0.0))
    sc.redirect_two = None
    if sc.paired and rng.random() < want.get("mixed_layout_p", 0.0):
        # main output and redirect files need not have the same layout
        sc.redirect_two = bool(sc.interleaved_out)
    choose_filters(rng, sc, want)
    predict(sc)
    sc.report = rng.choice([None, None, "full", "minimal"])
    sc.cores = rng.choice([1, 1, 1, 2, 3]) if want.get("multicore", True) else 1
    # side outputs that see every read before the filters (for pairs they look at R1 only)
    sc.side = []
    if rng.random() < want.get("side_p", 0.35):
        linked = any(a["kind"] == "linked" for a in sc.ads1 + sc.ads2)
        r = rng.random()
        if r < 0.6 or linked:
            sc.side += ["--info-file", "side.info.tsv"]
        elif r < 0.8:
            sc.side += ["--rest-file", "side.rest.txt"]
        else:
            sc.side += ["--wildcard-file", "side.wild.txt"]
    sc.template_style = "file"
    if sc.demux and rng.random() < want.get("template_styles_p", 0.0) and not any("/" in a["name"] for a in sc.ads1 + sc.ads2):
        sc.template_style = rng.choice(["dir", "dir", "dir-and-file", "start"])
    sc.argv = main_argv(sc, sc.report, sc.cores, extra=sc.side)
    sc.layout = output_layout(sc)
    # the program does not create directories
    for pair in sc.layout.values():
        for f in pair:
            if f and "/" in f:
                os.makedirs(os.path.join(d, os.path.dirname(f)), exist_ok=True)
    sc.run = climon.run(d, sc.argv, tag="main", trace=want.get("trace", True), timeout=120)
    sc.case = climon.case_record(sc.argv, d, sc.inputs)
    sc.layout = output_layout(sc)
    sc.files = {}
    sc.membership = {}   # read id -> list of destinations it was found in
    sc.problems = []
    if sc.run.rc != 0:
        return sc
    for dest, (f1, f2) in sc.layout.items():
        r1 = sc.run.records(f1)
        r2 = sc.run.records(f2) if f2 else None
        if sc.paired and f2 is None and r1 is not None and r1[0] != "error":
            # interleaved file: records alternate R1, R2
            recs = r1[1]
            if len(recs) % 2:
                sc.problems.append(("interleaved-odd", f"interleaved file {f1} has an odd number of records ({len(recs)})"))
            r1, r2 = (r1[0], recs[0::2]), (r1[0], recs[1::2])
        sc.files[dest] = (r1, r2)
        if r1 is None or r1[0] == "error":
            continue
        for rec in r1[1]:
            sc.membership.setdefault(fastx.rid(rec[0]), []).append(dest)
    return sc


# ---------------------------------------------------------------------------
# report parsing


def parse_text_report(text):
    """Numbers of the full text report that C04 compares. Returns dict (missing keys absent)."""
    num = lambda s: int(s.replace(",", ""))
    out = {}
    pats = {
        "input": r"Total read(?:s| pairs) processed:\s+([\d,]+)",
        "with_adapter1": r"(?:Reads with adapters|Read 1 with adapter):\s+([\d,]+)",
        "with_adapter2": r"Read 2 with adapter:\s+([\d,]+)",
        "reverse_complemented": r"Reverse-complemented:\s+([\d,]+)",
        "written": r"(?:Reads|Pairs) written \(passing filters\):\s+([\d,]+)",
        "total_bp": r"Total basepairs processed:\s+([\d,]+) bp",
        "quality_trimmed": r"Quality-trimmed:\s+([\d,]+) bp",
        "poly_a_trimmed": r"Poly-A-trimmed:\s+([\d,]+) bp",
        "written_bp": r"Total written \(filtered\):\s+([\d,]+) bp",
        "too_short": r"(?:Reads|Pairs) that were too short:\s+([\d,]+)",
        "too_long": r"(?:Reads|Pairs) that were too long:\s+([\d,]+)",
        "too_many_n": r"(?:Reads|Pairs) with too many N:\s+([\d,]+)",
        "too_many_expected_errors": r"(?:Reads|Pairs) with too many exp\. errors:\s+([\d,]+)",
        "too_high_average_error_rate": r"(?:Reads|Pairs) with too high [^:\n]*error rate:\s+([\d,]+)",
        "casava_filtered": r"(?:Reads|Pairs) failed CASAVA filter:\s+([\d,]+)",
        "discard_trimmed": r"(?:Reads|Pairs) discarded as trimmed:\s+([\d,]+)",
        "discard_untrimmed": r"(?:Reads|Pairs) discarded as untrimmed:\s+([\d,]+)",
    }
    for k, p in pats.items():
        m = re.search(p, text)
        if m:
            out[k] = num(m.group(1))
    # indented per-read lines below a figure ("  Read 1:   123 bp")
    for k, head in (("total_bp", "Total basepairs processed"), ("quality_trimmed", "Quality-trimmed"), ("poly_a_trimmed", "Poly-A-trimmed"),
                    ("written_bp", r"Total written \(filtered\)")):
        m = re.search(head + r":[^\n]*\n((?:  Read \d:[^\n]*\n)*)", text)
        if m:
            out["_per_read:" + k] = {int(a): num(b) for a, b in re.findall(r"  Read (\d):\s+([\d,]+) bp", m.group(1))}
    sect = re.search(r"== Read fate breakdown ==\n(.*?)\n\n", text, re.S)
    out["_fate_lines"] = re.findall(r"^(?:Reads|Pairs) ([^:\n]+):\s+([\d,]+) \(", sect.group(1) + "\n", re.M) if sect else []
    return out


def parse_minimal_report(text):
    lines = [l for l in text.strip().splitlines() if l.strip()]
    for i, l in enumerate(lines):
        if l.startswith("status\t") and i + 1 < len(lines):
            hdr = l.split("\t")
            vals = lines[i + 1].split("\t")
            return dict(zip(hdr, vals))
    return None
