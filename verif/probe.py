"""
The probe: monitoring hooks applied from outside by replacing attributes of the *staged*
cutadapt modules. Nothing is installed unless CUTADAPT_VERIF=1. Forked children (one per
CLI run, and the reader/worker processes of multi-core runs below it) inherit the hooks.

Events are appended as JSON lines to <EVENT_DIR>/ev.<pid>.jsonl. Events of one process
are sequential, so the offline checker groups them by the preceding `read` marker(s).

Schedule perturbation (C06/C12) is switched on per run with PERTURB = seed (int) or None.
Delays are a pure function of (seed, role, index) computed by integer mixing.
"""
import functools
import json
import os
import time

from .harness import mix

ENABLED = os.environ.get("CUTADAPT_VERIF") == "1"
EVENT_DIR = None  # set per run (in the forked child) by climon
PERTURB = None  # None or int seed
TRACE_READS = True  # per-read events on/off (off for large multi-core runs)
MISSING_HOOKS = []
INSTALLED = False

_fh = {}
_cur_infos = [None, None]
_wait_counter = [0]


def emit(ev):
    if EVENT_DIR is None:
        return
    pid = os.getpid()
    f = _fh.get(pid)
    if f is None:
        _fh.clear()  # handles inherited from the parent belong to the parent
        f = _fh[pid] = open(os.path.join(EVENT_DIR, f"ev.{pid}.jsonl"), "a", buffering=1 << 16)
    f.write(json.dumps(ev, separators=(",", ":")))
    f.write("\n")


def flush():
    f = _fh.get(os.getpid())
    if f is not None:
        f.flush()


def reset_for_run(event_dir, perturb=None, trace_reads=True):
    """Called in the forked child before cli.main()."""
    global EVENT_DIR, PERTURB, TRACE_READS
    _fh.clear()
    EVENT_DIR = event_dir
    PERTURB = perturb
    TRACE_READS = trace_reads
    _wait_counter[0] = 0


def snap(r):
    return None if r is None else [r.name, r.sequence, r.qualities]


def mrepr(m):
    import cutadapt.adapters as A

    if isinstance(m, A.LinkedMatch):
        return dict(
            kind="linked",
            name=m.adapter.name,
            front=mrepr(m.front_match) if m.front_match is not None else None,
            back=mrepr(m.back_match) if m.back_match is not None else None,
        )
    return dict(
        kind="before" if isinstance(m, A.RemoveBeforeMatch) else "after",
        name=m.adapter.name,
        astart=m.astart, astop=m.astop, rstart=m.rstart, rstop=m.rstop,
        errors=m.errors, score=m.score, seq=m.sequence,
        aseq=m.adapter.sequence, rate=m.adapter.max_error_rate, indels=m.adapter.indels,
        aw=m.adapter.adapter_wildcards, rw=m.adapter.read_wildcards,
        cls=type(m.adapter).__name__,
    )


def _delay(role, index):
    if PERTURB is None:
        return
    d = (0, 0, 0.002, 0.01, 0.04)[mix(PERTURB, hash_role(role), index) % 5]
    if d:
        time.sleep(d)


def hash_role(role):
    return {"reader": 11, "worker": 23, "main": 37}.get(role, 51)


def _side(info):
    if info is _cur_infos[0]:
        return 1
    if info is _cur_infos[1]:
        return 2
    return 0


ADAPTER_STAGE = ("AdapterCutter", "ReverseComplementer", "PairedReverseComplementer", "PairedAdapterCutter")


def _wrap_single_modifier(cls):
    orig = cls.__dict__.get("__call__")
    if orig is None:
        return
    name = cls.__name__

    @functools.wraps(orig)
    def w(self, read, info):
        if not TRACE_READS or EVENT_DIR is None:
            return orig(self, read, info)
        i = snap(read)
        nm0 = len(info.matches)
        out = orig(self, read, info)
        ev = dict(k="mod", c=name, side=_side(info), i=i, o=snap(out), nm=len(info.matches), rc=info.is_rc)
        if name in ADAPTER_STAGE:
            ev["matches"] = [mrepr(m) for m in info.matches[nm0:]]
        emit(ev)
        return out

    cls.__call__ = w


def _wrap_paired_modifier(cls):
    orig = cls.__dict__.get("__call__")
    if orig is None:
        return
    name = cls.__name__

    @functools.wraps(orig)
    def w(self, r1, r2, info1, info2):
        if not TRACE_READS or EVENT_DIR is None:
            return orig(self, r1, r2, info1, info2)
        i = [snap(r1), snap(r2)]
        n1, n2 = len(info1.matches), len(info2.matches)
        out = orig(self, r1, r2, info1, info2)
        ev = dict(k="pmod", c=name, i=i, o=None if out is None else [snap(out[0]), snap(out[1])],
                  rc=info1.is_rc)
        if name in ADAPTER_STAGE:
            ev["matches1"] = [mrepr(m) for m in info1.matches[n1:]]
            ev["matches2"] = [mrepr(m) for m in info2.matches[n2:]]
        emit(ev)
        return out

    cls.__call__ = w


def _wrap_single_step(cls):
    orig = cls.__dict__.get("__call__")
    if orig is None:
        return
    name = cls.__name__

    @functools.wraps(orig)
    def w(self, read, info):
        if not TRACE_READS or EVENT_DIR is None:
            return orig(self, read, info)
        out = orig(self, read, info)
        ident = None
        if hasattr(self, "descriptive_identifier"):
            try:
                ident = self.descriptive_identifier()
            except Exception:
                ident = None
        emit(dict(k="step", c=name, ident=ident, consumed=out is None, paired=False))
        return out

    cls.__call__ = w


def _wrap_paired_step(cls):
    orig = cls.__dict__.get("__call__")
    if orig is None:
        return
    name = cls.__name__

    @functools.wraps(orig)
    def w(self, r1, r2, info1, info2):
        if not TRACE_READS or EVENT_DIR is None:
            return orig(self, r1, r2, info1, info2)
        out = orig(self, r1, r2, info1, info2)
        ident = None
        if hasattr(self, "descriptive_identifier"):
            try:
                ident = self.descriptive_identifier()
            except Exception:
                ident = None
        emit(dict(k="step", c=name, ident=ident, consumed=out is None, paired=True))
        return out

    cls.__call__ = w


def _subclasses(base, mod):
    return [
        c for c in vars(mod).values()
        if isinstance(c, type) and issubclass(c, base) and c is not base and c.__module__ == mod.__name__
    ]


def install():
    """Install all hooks. Idempotent. Records hook points that no longer exist."""
    global INSTALLED
    if INSTALLED or not ENABLED:
        return
    INSTALLED = True
    import cutadapt.pipeline as P
    import cutadapt.modifiers as M
    import cutadapt.steps as S
    import cutadapt.runners as R
    import cutadapt.files as F

    # --- per read ------------------------------------------------------
    try:
        RealInfo = P.ModificationInfo
        state = {"n": 0}

        def InfoFactory(read):
            info = RealInfo(read)
            if TRACE_READS and EVENT_DIR is not None:
                # paired pipelines create info1 then info2 for each pair
                slot = state["n"] % 2 if state.get("paired") else 0
                _cur_infos[slot] = info
                if not state.get("paired"):
                    _cur_infos[1] = None
                state["n"] += 1
                emit(dict(k="read", slot=slot + 1, i=snap(read)))
            return info

        P.ModificationInfo = InfoFactory
        orig_pp = P.PairedEndPipeline.process_reads
        orig_sp = P.SingleEndPipeline.process_reads

        def pp(self, *a, **kw):
            state["paired"] = True
            state["n"] = 0
            return orig_pp(self, *a, **kw)

        def sp(self, *a, **kw):
            state["paired"] = False
            state["n"] = 0
            return orig_sp(self, *a, **kw)

        P.PairedEndPipeline.process_reads = pp
        P.SingleEndPipeline.process_reads = sp
    except AttributeError as e:
        MISSING_HOOKS.append(f"pipeline: {e}")

    try:
        for c in _subclasses(M.SingleEndModifier, M):
            _wrap_single_modifier(c)
        for c in _subclasses(M.PairedEndModifier, M):
            if c.__name__ != "PairedEndModifierWrapper":
                _wrap_paired_modifier(c)
    except AttributeError as e:
        MISSING_HOOKS.append(f"modifiers: {e}")
    try:
        for c in _subclasses(S.SingleEndStep, S):
            _wrap_single_step(c)
        for c in _subclasses(S.PairedEndStep, S):
            if c.__name__ != "PairedSingleEndStep":
                _wrap_paired_step(c)
    except AttributeError as e:
        MISSING_HOOKS.append(f"steps: {e}")

    # --- output files --------------------------------------------------
    try:
        o_orw = F.OutputFiles.open_record_writer

        def orw(self, *paths, **kw):
            emit(dict(k="open", paths=[str(p) for p in paths], kw={k: v for k, v in kw.items()}))
            return o_orw(self, *paths, **kw)

        F.OutputFiles.open_record_writer = orw
        o_ot = F.OutputFiles.open_text

        def ot(self, path):
            emit(dict(k="open_text", path=str(path)))
            return o_ot(self, path)

        F.OutputFiles.open_text = ot
    except AttributeError as e:
        MISSING_HOOKS.append(f"files: {e}")

    # --- multi-core runner --------------------------------------------
    try:
        o_stw = R.ReaderProcess.send_to_worker

        def stw(self, chunk_index, chunk1, chunk2=None):
            _delay("reader", chunk_index)
            emit(dict(k="handout", chunk=chunk_index, n1=len(chunk1)))
            return o_stw(self, chunk_index, chunk1, chunk2)

        R.ReaderProcess.send_to_worker = stw
        o_rrun = R.ReaderProcess.run

        def rrun(self):
            try:
                return o_rrun(self)
            finally:
                flush()

        R.ReaderProcess.run = rrun
    except AttributeError as e:
        MISSING_HOOKS.append(f"reader: {e}")
    try:
        o_send = R.WorkerProcess._send_outfiles

        def send(self, chunk_index, n_reads):
            _delay("worker", chunk_index)
            emit(dict(k="chunk_done", worker=self._id, chunk=chunk_index, n=n_reads))
            return o_send(self, chunk_index, n_reads)

        R.WorkerProcess._send_outfiles = send
        o_wrun = R.WorkerProcess.run

        def wrun(self):
            try:
                return o_wrun(self)
            finally:
                flush()

        R.WorkerProcess.run = wrun
    except AttributeError as e:
        MISSING_HOOKS.append(f"worker: {e}")
    try:
        import multiprocessing.connection as mpc

        real_wait = mpc.wait

        def wait(conns, timeout=None):
            if EVENT_DIR is None:
                return real_wait(conns, timeout)
            _wait_counter[0] += 1
            _delay("main", _wait_counter[0])
            ready = list(real_wait(conns, timeout))
            if PERTURB is not None and len(ready) > 1:
                # seeded shuffle of the ready list (Fisher-Yates with integer mixing)
                for i in range(len(ready) - 1, 0, -1):
                    j = mix(PERTURB, 77, _wait_counter[0], i) % (i + 1)
                    ready[i], ready[j] = ready[j], ready[i]
            emit(dict(k="wait", n=len(ready)))
            return ready

        # runners.py calls multiprocessing.connection.wait through the module attribute
        R.multiprocessing.connection.wait = wait
        o_write = R.OrderedChunkWriter.write
        ocw_ids = {}

        def ow(self, data, index):
            wid = ocw_ids.setdefault(id(self), len(ocw_ids))
            emit(dict(k="ocw", w=wid, idx=index, cur=self._current_index, pending=sorted(self._chunks), n=len(data)))
            return o_write(self, data, index)

        R.OrderedChunkWriter.write = ow
    except AttributeError as e:
        MISSING_HOOKS.append(f"main-runner: {e}")


if ENABLED:
    try:
        install()
    except Exception as e:  # pragma: no cover - recorded, the checks decide what to do
        MISSING_HOOKS.append(f"install failed: {type(e).__name__}: {e}")
