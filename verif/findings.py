"""
Known findings: genuine defects of the unchanged tree that are recorded, not repaired.

/verif/known_findings.json is committed and never written at run time. An entry is keyed by
*mechanism*: `key` names a classifier below, a predicate over the kind of oracle clause that
failed and the facts the monitor observed for that case -- never a seed, hash or concrete value.
A violation that no listed classifier matches is reported as VIOLATION. "fixed" entries
suppress nothing.
"""
import json
import os

PATH = os.path.join(os.path.dirname(os.path.dirname(os.path.abspath(__file__))), "known_findings.json")


def _f(v, name, default=None):
    return (v.get("facts") or {}).get(name, default)


# key -> predicate(violation dict) ; a classifier is as narrow as the defect it describes
CLASSIFIERS = {
    # C07/C02: the k-mer windows are as long as the adapter part; an alignment whose read
    # interval is longer than its adapter interval (net insertion) can fall outside them
    "kmer-window-net-insertion": lambda v: v["kind"] == "prefilter-lost-match"
    and _f(v, "indels") is True and _f(v, "rlen", 0) > _f(v, "alen", 0),
    # C07: read lies strictly inside an 'anywhere' adapter: no search set covers that case
    "kmer-read-inside-adapter": lambda v: v["kind"] == "prefilter-lost-match"
    and _f(v, "anywhere") is True and _f(v, "astart", 0) > 0 and _f(v, "astop_lt_m") is True
    and not (_f(v, "indels") is True and _f(v, "rlen", 0) > _f(v, "alen", 0)),
    # C17: info-file coordinates refer to the read after 5' trimming but are applied to the
    # stored original read
    "info-5p-offset": lambda v: v["kind"] in ("info-concat", "info-middle", "info-quals")
    and _f(v, "removed_5p_before_adapters", 0) > 0,
    # C12: the FASTQ parser does not validate quality characters: a quality line corrupted to hold a control character,
    # blank or DEL (same length, still ASCII) is accepted. Only for files whose sole defect is that character.
    "fastq-quality-char-not-validated": lambda v: v["kind"] == "malformed-accepted"
    and _f(v, "only_defect") == "quality-char-out-of-range",
}


def load(cid):
    try:
        with open(PATH) as f:
            data = json.load(f)
    except FileNotFoundError:
        return []
    out = []
    for e in data.get("findings", []):
        if e.get("property") == cid and e.get("key") in CLASSIFIERS:
            out.append(e)
    return out


def classify(known, violation):
    for e in known:
        try:
            if CLASSIFIERS[e["key"]](violation):
                return e
        except Exception:
            continue
    return None
