"""
Check driver: stages the tree, fans a check out over shard processes, merges their
observations, classifies violations against known_findings.json, writes the evidence
file and prints the verdict.

Exit codes: 0 held (possibly with KNOWN-FINDING lines), 1 VIOLATION, 3 INCONCLUSIVE.
"""
import argparse
import array
import glob
import hashlib
import importlib
import json
import os
import random
import re
import shutil
import signal
import subprocess
import sys
import tempfile
import time
import traceback

from . import stage, findings

VERIF_ROOT = stage.VERIF_ROOT
EVIDENCE_DIR = os.path.join(VERIF_ROOT, "evidence")
REPLAY_DIR = os.path.join(VERIF_ROOT, "replays")
NSHARDS = int(os.environ.get("VERIF_SHARDS", "16"))

ALL_IDS = [f"C{i:02d}" for i in range(1, 21)]


def load_check(cid):
    return importlib.import_module(f"verif.checks.{cid.lower()}")


def h64(obj) -> int:
    """Stable 64-bit hash of a JSON-able object (independent of PYTHONHASHSEED)."""
    if not isinstance(obj, (bytes, str)):
        obj = json.dumps(obj, sort_keys=True, default=str)
    if isinstance(obj, str):
        obj = obj.encode("utf-8", "surrogatepass")
    return int.from_bytes(hashlib.blake2b(obj, digest_size=8).digest(), "little")


def mix(*ints) -> int:
    """Deterministic integer mixing (splitmix64 style); never uses hash()."""
    x = 0x9E3779B97F4A7C15
    for v in ints:
        x ^= (int(v) + 0x9E3779B97F4A7C15 + (x << 6) + (x >> 2)) & 0xFFFFFFFFFFFFFFFF
        x = (x ^ (x >> 30)) * 0xBF58476D1CE4E5B9 & 0xFFFFFFFFFFFFFFFF
        x = (x ^ (x >> 27)) * 0x94D049BB133111EB & 0xFFFFFFFFFFFFFFFF
        x ^= x >> 31
    return x


class Ctx:
    """Per-shard context handed to check.run_shard()."""

    MAX_VIOLATIONS_KEPT = 40

    def __init__(self, cid, tier, seed, shard, nshards, variant, scratch, out_prefix, budget_s):
        self.cid = cid
        self.tier = tier
        self.seed = seed
        self.shard = shard
        self.nshards = nshards
        self.variant = variant
        self.scratch = scratch
        self.out_prefix = out_prefix
        self.budget_s = budget_s
        self.t0 = time.time()
        self.evaluations = 0
        self.counters = {}
        self.nontrivial = set()
        self.violations = []
        self.violation_counts = {}
        self.samples = []
        self.inconclusive = []
        self.extra = {}
        self._kept = {}
        self._san_log = None
        self._san_size = 0
        if variant == "asan":
            m = re.search(r"log_path=([^:]+)", os.environ.get("ASAN_OPTIONS", ""))
            if m:
                self._san_log = m.group(1)

    # --- randomness -------------------------------------------------------
    def rng(self, *stream) -> random.Random:
        ints = [h64(s) if not isinstance(s, int) else s for s in stream]
        return random.Random(mix(self.seed, self.shard, h64(self.variant), *ints))

    def scale(self, quick, thorough):
        return thorough if self.tier == "thorough" else quick

    def out_of_time(self) -> bool:
        return time.time() - self.t0 > self.budget_s

    # --- bookkeeping ------------------------------------------------------
    def count(self, name, n=1):
        self.counters[name] = self.counters.get(name, 0) + n

    def case(self, nontrivial_key=None):
        """Register one evaluated case. nontrivial_key: hashable description if the
        deciding oracle had something to decide for this case, else None."""
        self.evaluations += 1
        if nontrivial_key is not None:
            self.nontrivial.add(h64(nontrivial_key))

    def sample(self, obj, limit=4):
        if len(self.samples) < limit:
            self.samples.append(obj)

    def violation(self, kind, detail, case, facts=None, klass=None):
        """kind: short oracle clause name; detail: human text; case: replayable dict;
        facts: dict of observed facts used by the known-finding classifiers; klass: optional
        sub-class of the case, so that full witnesses are kept for each mechanism met."""
        self.violation_counts[kind] = self.violation_counts.get(kind, 0) + 1
        slot = (kind, klass)
        self._kept[slot] = self._kept.get(slot, 0) + 1
        if self._kept[slot] <= 8 and len(self.violations) < 400:
            self.violations.append(
                dict(kind=kind, detail=str(detail)[:2000], case=case, facts=facts or {})
            )
        elif len(self.violations) < 3000:
            # keep the facts so that unlisted mechanisms are not hidden behind listed ones
            self.violations.append(dict(kind=kind, detail="", case=None, facts=facts or {}))

    def mark_inconclusive(self, reason):
        if reason not in self.inconclusive:
            self.inconclusive.append(reason)

    # --- sanitizer attribution -----------------------------------------
    def san_check(self, case_fn):
        """Call after executing a case in the asan variant: if this process's sanitizer
        log grew, attribute the report to the case."""
        if self._san_log is None:
            return False
        path = f"{self._san_log}.{os.getpid()}"
        try:
            size = os.stat(path).st_size
        except FileNotFoundError:
            return False
        if size > self._san_size:
            with open(path, "r", errors="replace") as f:
                f.seek(self._san_size)
                text = f.read()
            self._san_size = size
            frames = re.findall(r"#\d+ 0x[0-9a-f]+ in (\S+)", text)
            top = [f for f in frames if f.startswith("__pyx")][:3]
            headline = next(
                (l for l in text.splitlines() if "ERROR: AddressSanitizer" in l or "runtime error" in l),
                text[:200],
            )
            self.violation(
                "sanitizer",
                headline + " | " + " < ".join(top),
                case_fn() if callable(case_fn) else case_fn,
                facts=dict(sanitizer=True, frames=top, headline=headline),
            )
            return True
        return False

    # --- result -----------------------------------------------------------
    def dump(self):
        arr = array.array("Q", sorted(self.nontrivial))
        with open(self.out_prefix + ".nt", "wb") as f:
            arr.tofile(f)
        res = dict(
            shard=self.shard,
            variant=self.variant,
            evaluations=self.evaluations,
            counters=self.counters,
            violations=self.violations,
            violation_counts=self.violation_counts,
            samples=self.samples,
            inconclusive=self.inconclusive,
            extra=self.extra,
            wall_s=time.time() - self.t0,
        )
        tmp = self.out_prefix + ".json.tmp"
        with open(tmp, "w") as f:
            json.dump(res, f, default=str)
        os.rename(tmp, self.out_prefix + ".json")


def shard_main(argv=None):
    ap = argparse.ArgumentParser()
    ap.add_argument("cid")
    ap.add_argument("--tier", default="quick")
    ap.add_argument("--seed", type=int, default=0)
    ap.add_argument("--shard", type=int, default=0)
    ap.add_argument("--nshards", type=int, default=1)
    ap.add_argument("--variant", default="plain")
    ap.add_argument("--scratch", required=True)
    ap.add_argument("--out", required=True)
    ap.add_argument("--budget", type=float, default=600)
    ap.add_argument("--replay", default=None)
    a = ap.parse_args(argv)
    import logging

    logging.disable(logging.WARNING)
    stage.assert_staged()
    chk = load_check(a.cid)
    ctx = Ctx(a.cid, a.tier, a.seed, a.shard, a.nshards, a.variant, a.scratch, a.out, a.budget)
    try:
        if a.replay:
            with open(a.replay) as f:
                rep = json.load(f)
            chk.replay(ctx, rep["case"])
        else:
            chk.run_shard(ctx)
    except BaseException as e:  # a crashing monitor is inconclusive, never "held"
        if isinstance(e, KeyboardInterrupt):
            raise
        ctx.mark_inconclusive(f"shard {a.shard} monitor crashed: {type(e).__name__}: {e}")
        ctx.extra["traceback"] = traceback.format_exc()[-3000:]
    ctx.dump()


# -----------------------------------------------------------------------------
# parent side


def _spawn_shards(cid, tier, seed, variant, stage_dir, scratch, nshards, budget, replay=None):
    procs = []
    san_log = os.path.join(scratch, f"san-{variant}")
    env = stage.env_for(variant, stage_dir, san_log)
    env["TMPDIR"] = scratch
    for i in range(nshards):
        out = os.path.join(scratch, f"res-{variant}-{i}")
        sdir = os.path.join(scratch, f"w-{variant}-{i}")
        os.makedirs(sdir, exist_ok=True)
        cmd = [
            stage.PYTHON, "-m", "verif.shard", cid,
            "--tier", tier, "--seed", str(seed), "--shard", str(i), "--nshards", str(nshards),
            "--variant", variant, "--scratch", sdir, "--out", out, "--budget", str(budget),
        ]
        if replay:
            cmd += ["--replay", replay]
        log = open(out + ".log", "w")
        p = subprocess.Popen(cmd, env=env, stdout=log, stderr=subprocess.STDOUT,
                             cwd=sdir, start_new_session=True)
        procs.append((i, p, out, log))
    return procs, san_log


def _wait(procs, deadline):
    pending = list(procs)
    timed_out = []
    while pending:
        for item in list(pending):
            i, p, out, log = item
            if p.poll() is not None:
                pending.remove(item)
                log.close()
        if not pending:
            break
        if time.time() > deadline:
            for i, p, out, log in pending:
                try:
                    os.killpg(p.pid, signal.SIGKILL)
                except ProcessLookupError:
                    pass
                p.wait()
                log.close()
                timed_out.append(i)
            break
        time.sleep(0.05)
    return timed_out


def _parse_san_logs(prefix):
    """Return list of (headline, in-module frames, path) for every report block."""
    reports = []
    for path in sorted(glob.glob(prefix + ".*")):
        try:
            text = open(path, errors="replace").read()
        except OSError:
            continue
        blocks = re.split(r"(?m)^(?==+\d+==ERROR)|(?=^\S+:\d+:\d+: runtime error)", text)
        for b in blocks:
            if "ERROR: AddressSanitizer" not in b and "runtime error" not in b:
                continue
            headline = next(
                (l.strip() for l in b.splitlines() if "ERROR: AddressSanitizer" in l or "runtime error" in l), ""
            )
            frames = [f for f in re.findall(r"#\d+ 0x[0-9a-f]+ in (\S+)", b) if f.startswith("__pyx")][:4]
            reports.append((headline, frames, path))
    return reports


def run_check(cid, tier, seed, replay=None, keep=False):
    t0 = time.time()
    chk = load_check(cid)
    variants = list(chk.VARIANTS[tier]) if not replay else None
    nshards = NSHARDS
    budget = chk.BUDGET_S[tier]
    scratch = tempfile.mkdtemp(prefix=f"verif-{cid}-")
    merged = dict(evaluations=0, counters={}, violations=[], violation_counts={}, samples=[],
                  inconclusive=[], extra={}, per_variant={})
    nt_all = set()
    rc = None
    try:
        if replay:
            with open(replay) as f:
                rep = json.load(f)
            variants = [rep.get("variant", "plain")]
            nshards = 1
            seed = rep.get("seed", seed)
            tier = rep.get("tier", tier)
        stages = {}
        for v in variants:
            try:
                stages[v] = stage.ensure(v)
            except Exception as e:
                merged["inconclusive"].append(f"stage {v} could not be built: {e}")
        for v in variants:
            if v not in stages:
                continue
            procs, san_log = _spawn_shards(cid, tier, seed, v, stages[v], scratch, nshards, budget, replay)
            timed_out = _wait(procs, time.time() + budget * 2.5 + 120)
            for i in timed_out:
                merged["inconclusive"].append(f"shard {i} ({v}) exceeded the wall-clock watchdog")
            ev_v = 0
            for i, p, out, log in procs:
                if not os.path.exists(out + ".json"):
                    if i not in timed_out:
                        tail = ""
                        try:
                            tail = open(out + ".log").read()[-600:]
                        except OSError:
                            pass
                        merged["inconclusive"].append(
                            f"shard {i} ({v}) died without a result (exit {p.returncode}): {tail}")
                    continue
                with open(out + ".json") as f:
                    r = json.load(f)
                ev_v += r["evaluations"]
                merged["evaluations"] += r["evaluations"]
                for k, n in r["counters"].items():
                    key = k if v == "plain" else f"{v}:{k}"
                    merged["counters"][key] = merged["counters"].get(key, 0) + n
                for k, n in r["violation_counts"].items():
                    merged["violation_counts"][k] = merged["violation_counts"].get(k, 0) + n
                for viol in r["violations"]:
                    viol["variant"] = v
                    merged["violations"].append(viol)
                for s in r["samples"]:
                    if len(merged["samples"]) < 6:
                        merged["samples"].append(s)
                merged["inconclusive"] += [x for x in r["inconclusive"] if x not in merged["inconclusive"]]
                for k, val in r["extra"].items():
                    merged["extra"].setdefault(k, []).append(val)
                try:
                    arr = array.array("Q")
                    with open(out + ".nt", "rb") as f:
                        arr.frombytes(f.read())
                    nt_all.update(arr)
                except OSError:
                    pass
            merged["per_variant"][v] = dict(evaluations=ev_v)
            if v == "asan":
                reports = _parse_san_logs(san_log)
                dedup = {}
                for headline, frames, path in reports:
                    hk = re.sub(r"0x[0-9a-f]+", "0x?", re.sub(r"==\d+==", "", headline))
                    hk = re.sub(r"^\S*/([^/ :]+:\d+:\d+)", r"\1", hk)
                    dedup[(hk, tuple(frames[:2]))] = dedup.get((hk, tuple(frames[:2])), 0) + 1
                merged["per_variant"][v]["sanitizer_report_blocks"] = len(reports)
                merged["per_variant"][v]["sanitizer_distinct"] = [
                    dict(headline=k[0][:200], frames=list(k[1]), count=n) for k, n in dedup.items()
                ]
                attributed = sum(1 for x in merged["violations"] if x["kind"] == "sanitizer")
                attributed += merged["counters"].get("asan:sanitizer_report_out_of_domain_config", 0)
                if len(reports) > attributed:
                    # report not attributed to a case by a shard: still a violation
                    merged["violations"].append(dict(
                        kind="sanitizer", variant=v, case=None,
                        detail=reports[0][0] + " | " + " < ".join(reports[0][1]),
                        facts=dict(sanitizer=True, frames=reports[0][1], headline=reports[0][0])))
                    merged["violation_counts"]["sanitizer"] = merged["violation_counts"].get("sanitizer", 0) + len(reports)
        merged["distinct_nontrivial"] = len(nt_all)
        if replay:
            rc = _finish_replay(cid, merged)
        else:
            rc = _finish(cid, chk, tier, seed, merged, time.time() - t0)
    finally:
        if keep:
            print(f"scratch kept: {scratch}")
        else:
            shutil.rmtree(scratch, ignore_errors=True)
    return rc


def _finish_replay(cid, merged):
    if merged["violations"]:
        for v in merged["violations"][:5]:
            print(f"REPLAY reproduces: property={cid} kind={v['kind']} {v['detail'][:400]}")
        return 1
    if merged["inconclusive"]:
        print(f"INCONCLUSIVE property={cid} reason={merged['inconclusive'][0]}")
        return 3
    print(f"REPLAY: property={cid} no violation on this case")
    return 0


def _finish(cid, chk, tier, seed, merged, wall):
    if os.environ.get("VERIF_DUMP"):
        with open(os.environ["VERIF_DUMP"], "w") as f:
            json.dump(merged["violations"], f, default=str)
    known = findings.load(cid)
    unlisted = []
    listed = {}
    for v in merged["violations"]:
        k = findings.classify(known, v)
        if k is None:
            unlisted.append(v)
        else:
            listed.setdefault(k["key"], [k, 0])[1] += 1
    # violations beyond the kept cap have facts only; all were classified above.
    floor = chk.FLOORS[tier]
    inconclusive = list(merged["inconclusive"])
    if merged["distinct_nontrivial"] < floor:
        inconclusive.append(
            f"only {merged['distinct_nontrivial']} distinct non-trivial cases observed (floor {floor})")
    if hasattr(chk, "verdict_hook"):
        for reason in chk.verdict_hook(merged, tier) or []:
            inconclusive.append(reason)

    replay_paths = []
    for v in unlisted:
        if v.get("case") is None:
            continue
        d = os.path.join(REPLAY_DIR, cid)
        os.makedirs(d, exist_ok=True)
        body = dict(property=cid, kind=v["kind"], detail=v["detail"], variant=v.get("variant", "plain"),
                    facts=v.get("facts"), case=v["case"], seed=seed, tier=tier)
        name = f"{h64(body['case']):016x}.json"
        path = os.path.join(d, name)
        with open(path, "w") as f:
            json.dump(body, f, indent=1, default=str)
        replay_paths.append((v, path))
        if len(replay_paths) >= 10:
            break

    level = chk.LEVEL
    coverage = dict(
        evaluations=merged["evaluations"],
        distinct_nontrivial=merged["distinct_nontrivial"],
        rule=chk.RULE,
        samples=merged["samples"] or ["<no sample recorded>"],
        counters=dict(sorted(merged["counters"].items())),
        per_variant=merged["per_variant"],
        violation_kinds=merged["violation_counts"],
        known_findings_met={k: n for k, (_, n) in listed.items()},
        unlisted_violations=len(unlisted),
        inconclusive_reasons=inconclusive,
        floor=floor,
        shards=NSHARDS,
    )
    for k, vals in merged["extra"].items():
        if k == "traceback":
            coverage["monitor_tracebacks"] = vals[:2]
        else:
            coverage.setdefault("extra", {})[k] = vals if len(vals) <= 16 else vals[:16]
    if hasattr(chk, "coverage_hook"):
        chk.coverage_hook(coverage, merged)
    if getattr(chk, "EXHAUSTIVE", {}).get(tier):
        coverage["exhaustive_subspace"] = chk.EXHAUSTIVE[tier]
    evidence = dict(
        property_id=cid, tier=tier, seed=seed, level=level, coverage=coverage,
        assumptions=list(chk.ASSUMPTIONS), wall_s=round(wall, 2),
        violations=len(unlisted),
    )
    os.makedirs(EVIDENCE_DIR, exist_ok=True)
    tmp = os.path.join(EVIDENCE_DIR, f"{cid}.json.tmp")
    with open(tmp, "w") as f:
        json.dump(evidence, f, indent=1, default=str)
    os.rename(tmp, os.path.join(EVIDENCE_DIR, f"{cid}.json"))

    print(f"{cid} tier={tier} seed={seed}: {merged['evaluations']} evaluations, "
          f"{merged['distinct_nontrivial']} distinct non-trivial, wall {wall:.1f}s")
    for key, (k, n) in sorted(listed.items()):
        print(f"KNOWN-FINDING: property={cid} {k['what_fails']} [key={key}, met {n}x]")
    if unlisted:
        shown = set()
        for v, path in replay_paths:
            if v["kind"] in shown and len(shown) > 3:
                continue
            shown.add(v["kind"])
            print(f"  violation kind={v['kind']}: {v['detail'][:300]}")
        path = replay_paths[0][1] if replay_paths else "<none>"
        print(f"VIOLATION property={cid} replay={path}")
        return 1
    if inconclusive:
        print(f"INCONCLUSIVE property={cid} reason={inconclusive[0]}")
        return 3
    print(f"HELD property={cid} on everything observed")
    return 0


def main(argv=None):
    ap = argparse.ArgumentParser(prog="python -m verif")
    ap.add_argument("what", help="property id C01..C20, 'setup', 'all' or 'selftest'")
    ap.add_argument("--tier", default=os.environ.get("VERIF_TIER", "quick"), choices=["quick", "thorough"])
    ap.add_argument("--replay", default=None)
    ap.add_argument("--keep", action="store_true")
    a = ap.parse_args(argv)
    seed = int(os.environ.get("VERIF_SEED", "0") or 0)
    if a.what == "setup":
        for v in ("plain", "asan"):
            t = time.time()
            try:
                print(v, stage.ensure(v), f"{time.time() - t:.1f}s")
            except Exception as e:
                print(f"stage {v} failed: {e}")
                return 1
        return 0
    if a.what == "all":
        worst = 0
        for cid in ALL_IDS:
            try:
                load_check(cid)
            except ImportError:
                continue
            rc = run_check(cid, a.tier, seed)
            worst = max(worst, rc)
        return worst
    cid = a.what.upper()
    return run_check(cid, a.tier, seed, replay=a.replay, keep=a.keep)
