"""
Staging: build an importable copy of the *current working tree* of cutadapt,
including freshly compiled Cython extensions, under /verif/.build/<variant>-<hash>/.

Variants:
  plain  gcc with the interpreter's flags
  asan   clang -fsanitize=address,undefined (recover mode), run with LD_PRELOAD of the
         shared ASan runtime

The stage directory is put first on PYTHONPATH of every shard process so that the
editable install's stale .so files are never used.
"""
import fcntl
import hashlib
import os
import shutil
import subprocess
import sys
import sysconfig
import time
from concurrent.futures import ThreadPoolExecutor

VERIF_ROOT = os.path.dirname(os.path.dirname(os.path.abspath(__file__)))
BUILD_ROOT = os.path.join(VERIF_ROOT, ".build")
PYX = ["_align", "_kmer_finder", "qualtrim", "info"]
PYTHON = "/venv/bin/python"
CYTHON = "/venv/bin/cython"

ASAN_FLAGS = [
    "-O1",
    "-g",
    "-fno-omit-frame-pointer",
    "-fsanitize=address,undefined",
    "-fsanitize-recover=address,undefined",
    "-shared-libasan",
]


class StageError(Exception):
    pass


def repo_root() -> str:
    return os.environ.get("VERIF_REPO", "/repo")


def _src_dir() -> str:
    return os.path.join(repo_root(), "src", "cutadapt")


def _source_files():
    d = _src_dir()
    out = []
    for name in sorted(os.listdir(d)):
        if name.endswith((".py", ".pyx", ".pyi", ".h", ".pxd", ".typed")):
            out.append(name)
    return out


def _hash_inputs(variant: str):
    """Return (full_hash, native_hash). native_hash covers only what needs compiling."""
    d = _src_dir()
    h_all = hashlib.sha256()
    h_nat = hashlib.sha256()
    tag = f"{variant}|{sys.version}|{' '.join(ASAN_FLAGS) if variant == 'asan' else 'gcc'}|v3".encode()
    h_all.update(tag)
    h_nat.update(tag)
    for name in _source_files():
        with open(os.path.join(d, name), "rb") as f:
            data = f.read()
        h_all.update(name.encode() + b"\0" + data + b"\0")
        if name.endswith((".pyx", ".h", ".pxd")):
            h_nat.update(name.encode() + b"\0" + data + b"\0")
    return h_all.hexdigest()[:16], h_nat.hexdigest()[:16]


def asan_runtime() -> str:
    out = subprocess.run(
        ["clang", "-print-file-name=libclang_rt.asan-x86_64.so"],
        capture_output=True,
        text=True,
        check=True,
    ).stdout.strip()
    if not os.path.exists(out):
        raise StageError(f"ASan runtime not found: {out}")
    return out


def _compile_one(variant, cfile, sofile, incdir):
    if variant == "asan":
        cmd = ["clang"] + ASAN_FLAGS + ["-fPIC", "-shared", "-w", f"-I{incdir}", cfile, "-o", sofile]
    else:
        cflags = (sysconfig.get_config_var("CFLAGS") or "-O2").split()
        cmd = ["gcc"] + cflags + ["-fPIC", "-shared", "-w", f"-I{incdir}", cfile, "-o", sofile]
    r = subprocess.run(cmd, capture_output=True, text=True)
    if r.returncode != 0:
        raise StageError(f"compile failed: {' '.join(cmd)}\n{r.stderr[-3000:]}")


def _build_native(variant: str, native_dir: str):
    """Cythonize + compile the four extension modules into native_dir."""
    src = _src_dir()
    tmp = native_dir + f".tmp{os.getpid()}"
    shutil.rmtree(tmp, ignore_errors=True)
    os.makedirs(tmp)
    for name in os.listdir(src):
        if name.endswith((".pyx", ".h", ".pxd")):
            shutil.copy(os.path.join(src, name), os.path.join(tmp, name))
    incdir = sysconfig.get_paths()["include"]
    suffix = sysconfig.get_config_var("EXT_SUFFIX")

    def one(mod):
        pyx = os.path.join(tmp, mod + ".pyx")
        cfile = os.path.join(tmp, mod + ".c")
        r = subprocess.run(
            [CYTHON, "-3", pyx, "-o", cfile], capture_output=True, text=True, cwd=tmp
        )
        if r.returncode != 0:
            raise StageError(f"cython failed for {mod}:\n{r.stderr[-3000:]}")
        _compile_one(variant, cfile, os.path.join(tmp, mod + suffix), tmp if False else incdir)
        os.unlink(cfile)

    with ThreadPoolExecutor(4) as ex:
        list(ex.map(one, PYX))
    for name in os.listdir(tmp):
        if not name.endswith(suffix):
            os.unlink(os.path.join(tmp, name))
    try:
        os.rename(tmp, native_dir)
    except OSError:
        shutil.rmtree(tmp, ignore_errors=True)  # somebody else won the race


def _prune(keep: set):
    try:
        entries = os.listdir(BUILD_ROOT)
    except FileNotFoundError:
        return
    now = time.time()
    cands = []
    for e in entries:
        p = os.path.join(BUILD_ROOT, e)
        if e in keep or e.endswith(".lock") or not os.path.isdir(p):
            continue
        try:
            age = now - os.path.getmtime(p)
        except OSError:
            continue
        cands.append((age, p))
    # keep the 6 most recent other stages (other variants / concurrently used trees)
    cands.sort()
    for age, p in cands[6:]:
        if age > 1800:
            shutil.rmtree(p, ignore_errors=True)


def ensure(variant: str = "plain") -> str:
    """Return the path of a stage directory (to be put on PYTHONPATH) for the current tree."""
    assert variant in ("plain", "asan")
    if not os.path.isdir(_src_dir()):
        raise StageError(f"no cutadapt sources under {_src_dir()}")
    os.makedirs(BUILD_ROOT, exist_ok=True)
    full, nat = _hash_inputs(variant)
    stage = os.path.join(BUILD_ROOT, f"{variant}-{full}")
    native = os.path.join(BUILD_ROOT, f"native-{variant}-{nat}")
    if os.path.exists(os.path.join(stage, "cutadapt", ".complete")):
        os.utime(stage)
        if os.path.isdir(native):
            os.utime(native)
        return stage
    lock_path = os.path.join(BUILD_ROOT, f"{variant}.lock")
    with open(lock_path, "w") as lock:
        fcntl.flock(lock, fcntl.LOCK_EX)
        if os.path.exists(os.path.join(stage, "cutadapt", ".complete")):
            return stage
        if not os.path.isdir(native):
            _build_native(variant, native)
        tmp = stage + f".tmp{os.getpid()}"
        shutil.rmtree(tmp, ignore_errors=True)
        pkg = os.path.join(tmp, "cutadapt")
        os.makedirs(pkg)
        src = _src_dir()
        for name in _source_files():
            if name.endswith((".py", ".pyi", ".typed")):
                shutil.copy(os.path.join(src, name), os.path.join(pkg, name))
        for name in os.listdir(native):
            shutil.copy(os.path.join(native, name), os.path.join(pkg, name))
        with open(os.path.join(pkg, ".complete"), "w") as f:
            f.write(full)
        shutil.rmtree(stage, ignore_errors=True)
        os.rename(tmp, stage)
        _prune({os.path.basename(stage), os.path.basename(native)})
    return stage


def env_for(variant: str, stage: str, san_log: str = None) -> dict:
    """Environment for a subprocess that must import the staged cutadapt."""
    env = dict(os.environ)
    env["PYTHONPATH"] = stage + os.pathsep + VERIF_ROOT
    env["PYTHONHASHSEED"] = env.get("PYTHONHASHSEED", "0")
    env["CUTADAPT_VERIF"] = "1"
    env["VERIF_STAGE"] = stage
    env.pop("PYTHONSTARTUP", None)
    if variant == "asan":
        env["LD_PRELOAD"] = asan_runtime()
        env["PYTHONMALLOC"] = "malloc"
        log = san_log or os.path.join(stage, "san")
        env["ASAN_OPTIONS"] = (
            f"detect_leaks=0:halt_on_error=0:log_path={log}:allocator_may_return_null=1:"
            "handle_segv=1:symbolize=1:detect_odr_violation=0"
        )
        env["UBSAN_OPTIONS"] = f"halt_on_error=0:print_stacktrace=1:log_path={log}"
        env["ASAN_SYMBOLIZER_PATH"] = shutil.which("llvm-symbolizer") or shutil.which("llvm-symbolizer-14") or ""
    return env


def assert_staged():
    """Called inside shard processes: cutadapt must come from the stage."""
    import cutadapt
    import cutadapt._align as al

    stage = os.environ.get("VERIF_STAGE")
    if not stage:
        raise StageError("VERIF_STAGE not set")
    for mod in (cutadapt, al):
        if not os.path.abspath(mod.__file__).startswith(os.path.abspath(stage)):
            raise StageError(f"{mod.__name__} imported from {mod.__file__}, not from stage {stage}")


if __name__ == "__main__":
    for v in sys.argv[1:] or ["plain", "asan"]:
        t = time.time()
        print(v, ensure(v), f"{time.time()-t:.1f}s")
