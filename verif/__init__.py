"""Runtime-monitoring checks for cutadapt (properties C01-C20). See /verif/DESIGN.md."""
