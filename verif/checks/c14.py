"""C14 - poly-A, N-end trimming, N counts and expected errors match their definitions."""
import itertools
import math

from .. import refmodel as R

ID = "C14"
LEVEL = "exploration"
ENGINES = ['alnmon', 'sanrun']
TECHNIQUE = 'definition-based reference monitor on poly_a_trim_index, NEndTrimmer, TooManyN, expected_errors + ASan/UBSan'
LEVEL_TEXT = 'Each call of the real functions on generated sequences/quality strings (20%-boundary tails, ties, empty, all-A, all-N, lower case, every length residue mod 4) is compared with the enumerated definition; out-of-range quality characters are judged by the sanitizers only.'
LEVEL_TEXT += ' --max-ee, --max-aer and --max-n are also run at the command line with --quality-base 33 and 64 and compared read by read with the definitions, including N fractions exactly at the cut-off.'
LEVEL_TEXT += ' Reads of several hundred to a few thousand bases with several A-rich regions, U and IUPAC characters in the tails, and expected_errors under other quality bases (0-255: refused or the defined sum).'
LEVEL_TEXT += ' Thresholds 0 for --max-ee and non-integral counts for --max-n at the command line.'
LEVEL_NOTE = 'Trusted base: refmodel.poly_a_index/nend_trim/expected_errors/too_many_n. Float comparison of expected errors with rel. tolerance 1e-5; thresholds compared only when the reference is clearly on one side, except exact Q0 sums.'
VARIANTS = {"quick": ["plain", "asan"], "thorough": ["plain", "asan"]}
BUDGET_S = {"quick": 120, "thorough": 2400}
FLOORS = {"quick": 20000, "thorough": 500000}
EXHAUSTIVE = {"thorough": "poly-A/poly-T: all sequences over {A,C} (resp. {T,C}) of length <= 12; "
                          "--trim-n: all sequences over {N,A} of length <= 10"}
RULE = ("Seeded random sequences (A-rich tails near the 20% boundary, all-A, all-N, empty, lower case) and quality "
        "strings (lengths 0-9 and every residue mod 4 for the unrolled loop, all printable characters). "
        "poly_a_trim_index (both orientations) and PolyATrimmer, NEndTrimmer, TooManyN, expected_errors, "
        "TooManyExpectedErrors and TooHighAverageErrorRate are called directly and compared with the definitions "
        "(suffix enumeration with score +1/-2 and <=20% non-A, maximal N runs, math.fsum of 10^(-Q/10), "
        "case-insensitive N count with exact fraction comparison). Quality characters outside [base,126] are fed too "
        "but only the sanitizers judge those calls. Non-trivial = the definition removes/filters something or the value "
        "compared is non-zero; distinct by input.")
ASSUMPTIONS = [
    "refmodel.poly_a_index / nend_trim / expected_errors / too_many_n transcribe the documented definitions",
    "expected errors are compared with relative tolerance 1e-5 (the implementation accumulates float/double)",
    "for quality characters outside [base, 126] the definition says nothing: value or exception is not compared",
    "a clean ASan/UBSan run means no report on the calls made, not memory safety",
]


def gen_long_seq(rng):
    """Several hundred to a few thousand bases with A-rich and A-free regions: the best tail may begin far behind a long
    stretch that, taken alone, ends every shorter candidate."""
    parts = ["".join(rng.choice("ACGT") for _ in range(rng.randint(0, 12)))]
    for _ in range(rng.randint(1, 4)):
        parts.append("A" * rng.choice([rng.randint(3, 60), rng.randint(100, 900)]))
        if rng.random() < 0.3:
            parts.append(rng.choice("CGT"))
        parts.append("".join(rng.choice(["C", "G", "T", "CTG", "CCGT"]) for _ in range(rng.choice([0, rng.randint(1, 20), rng.randint(30, 70)]))))
    if rng.random() < 0.6:
        parts.append("A" * rng.randint(0, 40))
    return "".join(parts)


def gen_seq(rng):
    mode = rng.random()
    if mode < 0.015:
        return gen_long_seq(rng)
    n = rng.choice([0, 1, 2, 3, 4, 5, rng.randint(0, 50)])
    if mode < 0.45:
        head = "".join(rng.choice("ACGT") for _ in range(rng.randint(0, 12)))
        # U (RNA) and IUPAC codes are "other bases" like C, G and T
        tail = "".join(rng.choice(rng.choice(["AAAAAAACGTN", "AAAAAAACGTN", "AAAAAAAUUCG", "AAAAAAAAUuRYWt"])) for _ in range(n))
        return head + tail
    if mode < 0.6:
        # exactly at the 20% boundary: k non-A among 5k (+-1)
        k = rng.randint(1, 5)
        L = 5 * k + rng.choice([-1, 0, 1])
        s = ["A"] * max(L, 0)
        for p in rng.sample(range(len(s)), min(k, len(s))):
            s[p] = rng.choice("CGT")
        return "".join(rng.choice("ACGT") for _ in range(rng.randint(0, 5))) + "".join(s)
    if mode < 0.7:
        return "A" * n
    if mode < 0.8:
        return "".join(rng.choice("NNNACGTn") for _ in range(n))
    if mode < 0.9:
        return "N" * rng.randint(0, 4) + "".join(rng.choice("ACGTN") for _ in range(n)) + "N" * rng.randint(0, 4)
    return "".join(rng.choice("ACGTacgtNn") for _ in range(n))


def check_seq(ctx, s, max_n_text):
    from cutadapt.qualtrim import poly_a_trim_index
    from cutadapt.modifiers import PolyATrimmer, NEndTrimmer, ModificationInfo
    from cutadapt.predicates import TooManyN
    from dnaio import SequenceRecord

    case = dict(kind="seq", s=s, max_n=max_n_text)
    nontrivial = False
    # poly-A tail
    exp = R.poly_a_index(s)
    got = poly_a_trim_index(s)
    if got != exp:
        ctx.violation("poly-a-index", f"poly_a_trim_index({s!r}) = {got}, reference {exp}", case)
    if exp < len(s):
        nontrivial = True
        ctx.count("poly_a_tail_found")
    # poly-T head (R2): mirror image
    t = "".join({"A": "T", "T": "A"}.get(c, c) for c in s[::-1])
    exp_t = R.poly_t_index(t)
    got_t = poly_a_trim_index(t, revcomp=True)
    if got_t != exp_t:
        ctx.violation("poly-t-index", f"poly_a_trim_index({t!r}, revcomp=True) = {got_t}, reference {exp_t}", case)
    if exp_t > 0:
        ctx.count("poly_t_head_found")
    q = "I" * len(s)
    rec = SequenceRecord("r", s, q)
    pa = PolyATrimmer()
    out = pa(rec, ModificationInfo(rec))
    if out.sequence != s[:exp] or len(out.qualities) != len(out.sequence):
        ctx.violation("poly-a-record", f"PolyATrimmer({s!r}) -> {out.sequence!r}, expected {s[:exp]!r}", case)
    if dict(pa.trimmed_bases) != {len(s) - exp: 1}:
        ctx.violation("poly-a-accounting", f"PolyATrimmer.trimmed_bases={dict(pa.trimmed_bases)}, removed {len(s)-exp}", case)
    rec2 = SequenceRecord("r", t, q)
    pt = PolyATrimmer(revcomp=True)
    out = pt(rec2, ModificationInfo(rec2))
    if out.sequence != t[exp_t:] or dict(pt.trimmed_bases) != {exp_t: 1}:
        ctx.violation("poly-t-record", f"PolyATrimmer(revcomp)({t!r}) -> {out.sequence!r} trimmed_bases={dict(pt.trimmed_bases)}, expected {t[exp_t:]!r}", case)
    # N ends
    a, b = R.nend_trim(s)
    rec = SequenceRecord("r", s, q)
    out = NEndTrimmer()(rec, ModificationInfo(rec))
    if (out.sequence, out.qualities) != (s[a:b], q[a:b]):
        ctx.violation("trim-n", f"NEndTrimmer({s!r}) -> {out.sequence!r}, expected {s[a:b]!r}", case)
    if (a, b) != (0, len(s)):
        nontrivial = True
        ctx.count("n_ends_removed")
    # N count
    exp_n, borderline = R.too_many_n(s, max_n_text)
    if borderline:
        ctx.count("max_n_float_borderline_skipped")
    else:
        got_n = TooManyN(float(max_n_text)).test(SequenceRecord("r", s, q), ModificationInfo(rec))
        if bool(got_n) != exp_n:
            ctx.violation("max-n", f"TooManyN({max_n_text}).test({s!r}) = {got_n}, reference {exp_n} (N count {R.n_count(s)})", case)
        if R.n_count(s):
            nontrivial = True
        if exp_n:
            ctx.count("too_many_n_true")
    ctx.case(("seq", s, max_n_text) if nontrivial else None)
    if nontrivial:
        ctx.sample(dict(seq=s, poly_a_index=exp, n_ends=(a, b), max_n=max_n_text, too_many_n=exp_n))


def check_quals(ctx, quals, thr_ee, thr_aer):
    from cutadapt.qualtrim import expected_errors
    from cutadapt.predicates import TooManyExpectedErrors, TooHighAverageErrorRate
    from cutadapt.modifiers import ModificationInfo
    from dnaio import SequenceRecord

    case = dict(kind="quals", quals=quals, thr_ee=thr_ee, thr_aer=thr_aer)
    valid = all(33 <= ord(c) <= 126 for c in quals)
    if not valid:
        ctx.count("out_of_range_quality_calls_sanitizer_only")
        try:
            expected_errors(quals)
        except ValueError:
            ctx.count("out_of_range_rejected")
        ctx.case(None)
        return
    exp = R.expected_errors(quals)
    got = expected_errors(quals)
    if not math.isclose(got, exp, rel_tol=1e-5, abs_tol=1e-9):
        ctx.violation("expected-errors", f"expected_errors({quals!r}) = {got!r}, reference {exp!r}", case)
    # other quality bases than 33 (--quality-base takes any number): the function may refuse the string (it does so for
    # characters below the base), but a value it returns has to be the sum of 10^(-Q/10)
    h = sum(map(ord, quals)) + len(quals)
    base = (0, 10, 20, 32, 40, 59, 64, 100, 126, 127, 200, 255)[h % 12]
    if quals:
        ctx.count("expected_errors_calls_with_another_base")
        try:
            got_b = expected_errors(quals, base)
        except ValueError:
            ctx.count("expected_errors_other_base_refused")
        else:
            exp_b = R.expected_errors(quals, base)
            if not math.isclose(got_b, exp_b, rel_tol=1e-5, abs_tol=1e-12):
                ctx.violation("expected-errors", f"expected_errors({quals!r}, {base}) = {got_b!r}, reference {exp_b!r}", dict(case, base=base))
    rec = SequenceRecord("r", "A" * len(quals), quals)
    info = ModificationInfo(rec)
    # thresholds: compare only when the reference is clearly on one side
    if abs(exp - thr_ee) > 1e-4 * max(1.0, exp):
        if bool(TooManyExpectedErrors(thr_ee).test(rec, info)) != (exp > thr_ee):
            ctx.violation("max-ee", f"TooManyExpectedErrors({thr_ee}) on {quals!r}: reference sum {exp}", case)
    else:
        ctx.count("max_ee_borderline_skipped")
    if len(quals):
        aer = exp / len(quals)
        if abs(aer - thr_aer) > 1e-5:
            if bool(TooHighAverageErrorRate(thr_aer).test(rec, info)) != (aer > thr_aer):
                ctx.violation("max-aer", f"TooHighAverageErrorRate({thr_aer}) on {quals!r}: reference {aer}", case)
    else:
        if TooHighAverageErrorRate(thr_aer).test(rec, info):
            ctx.violation("max-aer", "empty read filtered by --max-aer", case)
    ctx.case(("q", quals, thr_ee, thr_aer) if quals else None)
    if quals:
        ctx.sample(dict(quals=quals, expected_errors=exp), limit=6)


def exact_ee_cases(ctx):
    """Q0-only and Q10/Q20/Q30 reads have exactly representable sums: boundary at equality."""
    from cutadapt.predicates import TooManyExpectedErrors
    from cutadapt.modifiers import ModificationInfo
    from dnaio import SequenceRecord

    for n in range(0, 12):
        quals = "!" * n
        rec = SequenceRecord("r", "A" * n, quals)
        for thr in (n - 1, n, n + 1):
            if thr < 0:
                continue
            got = TooManyExpectedErrors(float(thr)).test(rec, ModificationInfo(rec))
            ctx.case(("eeq0", n, thr))
            if bool(got) != (n > thr):
                ctx.violation("max-ee-boundary", f"{n} x Q0 has exactly {n} expected errors; --max-ee {thr} gave {got}",
                              dict(kind="eeq0", n=n, thr=thr))


def cli_case(ctx, k):
    """--max-ee / --max-aer / --max-n at the command line, with the quality encoding the user declares."""
    import os
    import shutil
    from .. import clirun, fastx

    rng = ctx.rng("c14cli", k)
    base = rng.choice([33, 64])
    recs = []
    for i in range(rng.randint(8, 30)):
        n = rng.choice([0, 1, 2, 5, rng.randint(3, 40)])
        prof = rng.random()
        q = [rng.randint(0, 41) if prof < 0.6 else rng.choice([2, 10, 20, 30, 40]) for _ in range(n)]
        sq = "".join(rng.choice("ACGTNn" if rng.random() < 0.3 else "ACGT") for _ in range(n))
        recs.append((f"r{i}", sq, "".join(chr(base + x) for x in q), q))
    mode = rng.choice(["ee", "aer", "n"])
    boundary = None
    if mode == "n" and rng.random() < 0.4:
        # N fraction exactly at a decimal cut-off (not "more than"), for the lengths where a product or quotient in
        # double arithmetic lands on the other side of the integer
        boundary = rng.choice([(29, 50, "0.58"), (63, 90, "0.7"), (29, 100, "0.29"), (57, 100, "0.57"), (58, 100, "0.58"), (1, 5, "0.2"), (3, 10, "0.3")])
        n0, L, _ = boundary
        for j, cnt in enumerate([n0 - 1, n0, n0, n0 + 1]):
            sl = [rng.choice("ACGT") for _ in range(L)]
            for pos in rng.sample(range(L), cnt):
                sl[pos] = rng.choice("NNn")
            q = [30] * L
            recs.append((f"b{j}", "".join(sl), "".join(chr(base + x) for x in q), q))
    thr = dict(ee=rng.choice(["0.01", "0.5", "1", "3", "0", "0.0"]), aer=rng.choice(["0.001", "0.01", "0.1", "0.3"]), n=rng.choice(["0", "1", "0.1", "0.5", "1.5", "2.5", "2.0"]))[mode]
    if boundary:
        thr = boundary[2]
    d = os.path.join(ctx.scratch, f"cli{k}")
    os.makedirs(d, exist_ok=True)
    try:
        with open(os.path.join(d, "in.fq"), "w") as f:
            f.write(fastx.format_fastq([r[:3] for r in recs]))
        argv = ["--quality-base", str(base), {"ee": "--max-ee", "aer": "--max-aer", "n": "--max-n"}[mode], thr, "-o", "out.fq", "in.fq"]
        res = clirun.run(argv, d, timeout=60)
        case = dict(kind="cli", k=k, argv=argv)
        ctx.count("cli_runs")
        if res.rc != 0:
            ctx.case(("cli-fail", k))
            ctx.violation("cli-failed", f"exit {res.rc}: {res.err[-300:]}; argv={argv}", case)
            return
        kept = {fastx.rid(r[0]) for r in fastx.read_records(os.path.join(d, "out.fq"))[1]}
        for name, sq, qs, q in recs:
            if mode == "n":
                res_, borderline = R.too_many_n(sq, thr)
                if borderline:
                    continue
                drop = res_
                val = sq
            else:
                e = math.fsum(10 ** (-x / 10) for x in q)
                val = e if mode == "ee" else (e / len(q) if q else 0.0)
                t = float(thr)
                if abs(val - t) <= 1e-4 * max(1.0, val) and not all(x == 0 for x in q):
                    continue
                drop = val > t if q or mode == "ee" else False
            ctx.case(("cli", mode, thr, base, sq, qs) if drop or sq else None)
            if (name not in kept) != bool(drop):
                ctx.violation("cli-filter", f"{argv[2]} {thr} with --quality-base {base}: read {name} ({sq!r}, qualities {q}) has value {val!r}, "
                              f"so it must be {'discarded' if drop else 'kept'}, but it was {'kept' if name in kept else 'discarded'}", case, klass=mode + str(base))
    finally:
        shutil.rmtree(d, ignore_errors=True)


def cli_pair_case(ctx, k):
    """The same criteria on read pairs: each mate is judged by the definition under the declared quality encoding, the
    pair decision combines the two as --pair-filter says (any, both, first)."""
    import os
    import shutil
    from .. import clirun, fastx

    rng = ctx.rng("c14pair", k)
    base = rng.choice([33, 64])
    mode = rng.choice(["ee", "aer", "n"])
    thr = dict(ee=rng.choice(["0.05", "0.5", "1", "3", "0"]), aer=rng.choice(["0.001", "0.01", "0.05", "0.2"]), n=rng.choice(["0", "1", "0.2", "1.5"]))[mode]
    pf = rng.choice([None, "any", "both", "first"])

    def mate(i, tag):
        n = rng.choice([0, 1, 4, rng.randint(3, 30)])
        good = rng.random() < 0.5
        q = [rng.choice([38, 40, 41]) if good else rng.choice([2, 2, 10, 25]) for _ in range(n)]
        sq = "".join(rng.choice("ACGT" if good else "ACGTNn") for _ in range(n))
        return (f"p{i} {tag}", sq, "".join(chr(base + x) for x in q), q)

    r1 = [mate(i, "a") for i in range(rng.randint(8, 25))]
    r2 = [mate(i, "b") for i in range(len(r1))]
    d = os.path.join(ctx.scratch, f"clip{k}")
    os.makedirs(d, exist_ok=True)
    try:
        for nm, recs in (("in1.fq", r1), ("in2.fq", r2)):
            with open(os.path.join(d, nm), "w") as f:
                f.write(fastx.format_fastq([r[:3] for r in recs]))
        opt = {"ee": "--max-ee", "aer": "--max-aer", "n": "--max-n"}[mode]
        argv = ["--quality-base", str(base), opt, thr] + (["--pair-filter", pf] if pf else []) + (["-j", "2"] if rng.random() < 0.2 else []) + \
               ["-o", "o1.fq", "-p", "o2.fq", "in1.fq", "in2.fq"]
        res = clirun.run(argv, d, timeout=60)
        case = dict(kind="clipair", k=k, argv=argv)
        ctx.count("cli_pair_runs")
        if res.rc != 0:
            ctx.case(("clipair-fail", k))
            ctx.violation("cli-failed", f"exit {res.rc}: {res.err[-300:]}; argv={argv}", case)
            return
        kept = [fastx.rid(r[0]) for r in fastx.read_records(os.path.join(d, "o1.fq"))[1]]
        kept2 = [fastx.rid(r[0]) for r in fastx.read_records(os.path.join(d, "o2.fq"))[1]]
        if kept != kept2:
            ctx.violation("cli-pair-sync", f"R1 and R2 outputs hold different pairs: {kept[:5]} vs {kept2[:5]}; argv={argv}", case)
            return
        kept = set(kept)

        def judge(sq, q):
            if mode == "n":
                v, borderline = R.too_many_n(sq, thr)
                return None if borderline else v
            e = math.fsum(10 ** (-x / 10) for x in q)
            val = e if mode == "ee" else (e / len(q) if q else 0.0)
            t = float(thr)
            if abs(val - t) <= 1e-4 * max(1.0, val):
                return None
            return val > t if (q or mode == "ee") else False

        for (n1, s1, _, q1), (n2, s2, _, q2) in zip(r1, r2):
            d1, d2 = judge(s1, q1), judge(s2, q2)
            if d1 is None or d2 is None:
                continue
            drop = {"any": d1 or d2, None: d1 or d2, "both": d1 and d2, "first": d1}[pf]
            key = fastx.rid(n1)
            ctx.case(("clipair", mode, thr, base, pf, s1, str(q1), s2, str(q2)) if (d1 or d2) else None)
            if (key not in kept) != bool(drop):
                ctx.violation("cli-pair-filter", f"{opt} {thr} --pair-filter {pf} --quality-base {base}: pair {key} (R1 {s1!r}/{q1} -> {d1}, R2 {s2!r}/{q2} -> {d2}) "
                              f"must be {'discarded' if drop else 'kept'}, but it was {'kept' if key in kept else 'discarded'}; argv={argv}", case, klass=f"{mode}{base}{pf}")
    finally:
        shutil.rmtree(d, ignore_errors=True)


def run_shard(ctx):
    asan = ctx.variant == "asan"
    rng = ctx.rng("c14")
    n = ctx.scale(9000, 400000) if not asan else ctx.scale(3000, 40000)
    maxn = ["0", "1", "2", "3", "0.1", "0.2", "0.25", "0.5", "0.3333", "0.9"]
    for i in range(n):
        if ctx.out_of_time():
            ctx.count("stopped_on_time_budget"); break
        s = gen_seq(rng)
        check_seq(ctx, s, rng.choice(maxn))
        L = rng.choice([0, 1, 2, 3, 4, 5, 6, 7, 8, 9, rng.randint(0, 70)])
        mode = rng.random()
        if mode < 0.5:
            quals = "".join(chr(33 + rng.randint(0, 41)) for _ in range(L))
        elif mode < 0.8:
            quals = "".join(chr(rng.randint(33, 126)) for _ in range(L))
        elif mode < 0.9:
            quals = "".join(chr(33 + rng.choice([0, 10, 20, 30, 40])) for _ in range(L))
        else:
            quals = "".join(chr(rng.randint(1, 127)) for _ in range(L))   # outside the range: sanitizer only
        check_quals(ctx, quals, rng.choice([0, 0.5, 1, 2, 5, 10]), rng.choice([0.001, 0.01, 0.1, 0.2, 0.5, 0.9]))
        if asan and i % 50 == 0:
            ctx.san_check(lambda: dict(kind="batch", s=s, quals=quals))
    if asan:
        ctx.san_check(lambda: dict(kind="end"))
    if ctx.shard == 0 and not asan:
        exact_ee_cases(ctx)
    if not asan:
        for k in range(ctx.scale(12, 200)):
            cli_case(ctx, ctx.shard * 100000 + k)
        for k in range(ctx.scale(6, 100)):
            cli_pair_case(ctx, ctx.shard * 100000 + k)
    if ctx.tier == "thorough" and not asan:
        idx = 0
        for L in range(0, 13):
            for tup in itertools.product("AC", repeat=L):
                idx += 1
                if idx % ctx.nshards != ctx.shard:
                    continue
                check_seq(ctx, "".join(tup), "0.5")
        for L in range(0, 11):
            for tup in itertools.product("NA", repeat=L):
                idx += 1
                if idx % ctx.nshards != ctx.shard:
                    continue
                check_seq(ctx, "".join(tup), "0.25")


def replay(ctx, case):
    if case.get("kind") == "seq":
        check_seq(ctx, case["s"], case["max_n"])
    elif case.get("kind") == "quals":
        check_quals(ctx, case["quals"], case["thr_ee"], case["thr_aer"])
    elif case.get("kind") == "clipair":
        ctx.shard = case["k"] // 100000
        cli_pair_case(ctx, case["k"])
    elif case.get("kind") == "cli":
        ctx.shard = case["k"] // 100000
        cli_case(ctx, case["k"])
    elif case.get("kind") == "eeq0":
        exact_ee_cases(ctx)
    elif case.get("kind") == "batch":
        check_seq(ctx, case["s"], "0.5")
        check_quals(ctx, case["quals"], 1, 0.1)
    ctx.san_check(case)
