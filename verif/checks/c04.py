"""C04 - each read is written once or counted as filtered once; totals add up."""
import os
import shutil

from .. import climon, fastx, filtermon as F

ID = "C04"
LEVEL = "exploration"
ENGINES = ["climon"]
TECHNIQUE = "offline conservation checker over all output files (unique read ids), the --json/text/minimal reports and the per-read modifier trace of the same real run"
LEVEL_TEXT = ("Real CLI runs over generated filter/redirect/demultiplexing option sets (single and paired, 1-3 cores, three report kinds). "
              "With unique read ids the checker decides exactly: every input id is in at most one file and there once; input = written + sum of "
              "reported filter categories, where categories with a redirect file equal that file's record count and the others sum to the ids "
              "found in no file (so an omitted category is a violation); written reads/basepairs equal what the final output files contain; "
              "input/quality-trimmed/poly-A/with-adapter figures equal sums over the individual reads; text and minimal reports equal the JSON.")
LEVEL_TEXT += " Duplicate destinations: the same file requested for two outputs (two record outputs, record and text output, both mates, a shared first file, standard output and '-', one file under two spellings, a path equal to an expanded {name} file) must either be refused or hold exactly the records the report counts."
LEVEL_TEXT += ' The indented per-read lines of the text report are compared with the JSON figures; the second file of an output pair on standard output must parse as records and hold what the report counts; the JSON report must not share a path with a record output; a redirect file must not double as a demultiplexed file.'
LEVEL_TEXT += ' Paired --revcomp scenarios (with-adapter counts against what was removed from the written mates), output files aliased through symbolic links, a JSON report equal to an expanded {name} file.'
LEVEL_TEXT += ' With a trimmer active the quality-/poly-A-trimmed totals must be present (0, not null).'
LEVEL_NOTE = ("Trusted base: independent FASTQ parser, unique ids, regular expressions for the text report. For demultiplexing with "
              "--untrimmed-output both accountings of the untrimmed file (output or discard_untrimmed) are accepted.")
VARIANTS = {"quick": ["plain"], "thorough": ["plain"]}
BUDGET_S = {"quick": 150, "thorough": 3000}
FLOORS = {"quick": 300, "thorough": 10000}
RULE = ("Seeded random scenarios (adapters, modifiers, filters with boundary-targeted thresholds, redirects, demultiplexing normal and "
        "combinatorial, --discard-untrimmed/--untrimmed-output, --max-aer). Non-trivial = at least one read (pair) of the run was filtered or "
        "redirected; distinct by (argv, input).")
ASSUMPTIONS = ["read ids are unique per input", "reports are compared as printed (thousands separators removed)"]


def nz(x):
    return 0 if x is None else x


def evaluate(ctx, sc):
    run = sc.run
    case = sc.case
    argv = sc.argv
    viol = lambda kind, text, **facts: ctx.violation(kind, f"{text}; argv={argv}", case, facts=dict(facts, demux=sc.demux, paired=sc.paired), klass=str(sc.demux))
    n = len(sc.recs1)
    if run.rc != 0:
        if "Traceback" in run.err or "AssertionError" in run.err:
            last = run.err.strip().splitlines()[-1][:200] if run.err.strip() else ""
            viol("run-crashed", f"exit {run.rc}: {last}", crash=True, discard_untrimmed=bool(sc.fopts.get("discard_untrimmed")))
        else:
            ctx.count("runs_failed")
            ctx.extra.setdefault("failed_example", (argv, run.err[-300:]))
        return False
    # (1) exactly-once
    for dest, (r1, r2) in sc.files.items():
        if r1 is None:
            viol("file-missing", f"expected output file for {dest} does not exist")
            return False
        if r1[0] == "error" or (r2 is not None and r2[0] == "error"):
            viol("file-unparseable", f"output for {dest} does not parse: {r1[1] if r1[0] == 'error' else r2[1]}")
            return False
        ids = [fastx.rid(x[0]) for x in r1[1]]
        if len(set(ids)) != len(ids):
            viol("duplicate-in-file", f"a read occurs twice in the {dest} file")
    known = {fastx.rid(r[0]) for r in sc.recs1}
    for key, dests in sc.membership.items():
        if key not in known:
            viol("unknown-read-written", f"record {key} is not an input read")
        if len(dests) > 1:
            viol("duplicated-read", f"read {key} written to {dests}")
    rep = run.json_report()
    rc, bp = rep["read_counts"], rep["basepair_counts"]
    final = [d for d in sc.files if d == "out" or d.startswith("demux:") or d == "untrimmed_file"]
    redirects = {"too_short": "too_short", "too_long": "too_long"}
    if not sc.demux and sc.fopts.get("untrimmed_output"):
        redirects["discard_untrimmed"] = "discard_untrimmed"
    written = sum(len(sc.files[d][0][1]) for d in final)
    written_bp1 = sum(len(x[1]) for d in final for x in sc.files[d][0][1])
    written_bp2 = sum(len(x[1]) for d in final if sc.files[d][1] is not None for x in sc.files[d][1][1])
    nowhere = [k for k in known if k not in sc.membership]
    filtered = rc["filtered"]
    if rc["input"] != n:
        viol("input-count", f"read_counts.input={rc['input']}, {n} records read")
    alt_ok = False
    if rc["output"] != written:
        # demultiplexing with --untrimmed-output: the untrimmed file may be accounted as discard_untrimmed
        if sc.demux and "untrimmed_file" in sc.files:
            ut = len(sc.files["untrimmed_file"][0][1])
            if rc["output"] == written - ut and nz(filtered.get("discard_untrimmed")) == ut:
                alt_ok = True
        if not alt_ok:
            viol("output-count", f"read_counts.output={rc['output']}, final output files contain {written} records")
    for fname, dest in redirects.items():
        if dest in sc.files:
            cnt = len(sc.files[dest][0][1])
            if nz(filtered.get(fname)) != cnt:
                viol("redirect-count", f"filtered.{fname}={filtered.get(fname)} but the redirect file has {cnt} records")
    total_filtered = sum(nz(v) for v in filtered.values())
    if rc["input"] != rc["output"] + total_filtered:
        viol("conservation", f"input {rc['input']} != output {rc['output']} + filtered {total_filtered} ({filtered})",
             missing_category=True, max_aer="max_aer" in sc.fopts)
    silent = sum(nz(v) for k, v in filtered.items() if not (k in redirects and redirects[k] in sc.files))
    if alt_ok:
        silent -= len(sc.files["untrimmed_file"][0][1])
    if silent != len(nowhere):
        viol("silent-loss", f"{len(nowhere)} reads are in no output file but the categories without redirect file sum to {silent} ({filtered})",
             max_aer="max_aer" in sc.fopts, discard_untrimmed=bool(sc.fopts.get("discard_untrimmed")))
    # (5) basepairs
    in1 = sum(len(r[1]) for r in sc.recs1)
    in2 = sum(len(r[1]) for r in sc.recs2) if sc.paired else 0
    if bp["input"] != in1 + in2 or bp["input_read1"] != in1 or (sc.paired and bp["input_read2"] != in2):
        viol("input-bp", f"basepair_counts input={bp['input']}/{bp['input_read1']}/{bp['input_read2']}, actual {in1 + in2}/{in1}/{in2}")
    if not alt_ok:
        if bp["output"] != written_bp1 + written_bp2 or bp["output_read1"] != written_bp1 or (sc.paired and bp["output_read2"] != written_bp2):
            viol("output-bp", f"basepair_counts output={bp['output']}/{bp['output_read1']}/{bp['output_read2']}, files contain {written_bp1 + written_bp2}/{written_bp1}/{written_bp2}")
    # (6) with adapter
    wa1 = sum(1 for r in sc.base[1] if r["trimmed"])
    if nz(rc["read1_with_adapter"]) != wa1:
        viol("with-adapter", f"read1_with_adapter={rc['read1_with_adapter']}, {wa1} reads carry an adapter match")
    if sc.paired:
        wa2 = sum(1 for r in sc.base[2] if r["trimmed"])
        if nz(rc["read2_with_adapter"]) != wa2:
            viol("with-adapter", f"read2_with_adapter={rc['read2_with_adapter']}, {wa2} reads carry an adapter match")
    # (7) sums over the individual reads, from the trace
    groups = run.read_groups()
    if groups and len(groups) == n:
        qt = [0, 0]
        pa = [0, 0]
        for g in groups.values():
            for e in g["events"]:
                if e["k"] != "mod":
                    continue
                side = (e["side"] or 1) - 1
                if e["c"] in ("QualityTrimmer", "NextseqQualityTrimmer"):
                    qt[side] += len(e["i"][1]) - len(e["o"][1])
                elif e["c"] == "PolyATrimmer":
                    pa[side] += len(e["i"][1]) - len(e["o"][1])
        if "-q" in sc.mods or "--nextseq-trim" in sc.mods:
            if bp["quality_trimmed"] is None:
                viol("quality-trimmed-sum", f"quality trimming was asked for but quality_trimmed is null (per-read sums {qt}, quality_trimmed_read1={bp['quality_trimmed_read1']})")
            if nz(bp["quality_trimmed_read1"]) != qt[0] or nz(bp["quality_trimmed_read2"]) != qt[1] or nz(bp["quality_trimmed"]) != qt[0] + qt[1]:
                viol("quality-trimmed-sum", f"quality_trimmed={bp['quality_trimmed']}/{bp['quality_trimmed_read1']}/{bp['quality_trimmed_read2']}, per-read sums {qt}")
        if "--poly-a" in sc.mods:
            if bp["poly_a_trimmed"] is None or nz(bp["poly_a_trimmed"]) != pa[0] + pa[1]:
                viol("poly-a-sum", f"poly_a_trimmed={bp['poly_a_trimmed']}, per-read sums {pa}")
            if nz(bp["poly_a_trimmed_read1"]) != pa[0] or nz(bp["poly_a_trimmed_read2"]) != pa[1]:
                viol("poly-a-sum", f"poly_a_trimmed={bp['poly_a_trimmed_read1']}/{bp['poly_a_trimmed_read2']}, per-read sums {pa}")
        ctx.count("runs_with_trace_sums")
    elif groups:
        ctx.count("trace_incomplete")
    # (8) printed reports equal the JSON
    if sc.report == "minimal":
        mr = F.parse_minimal_report(run.out)
        if mr is None:
            viol("minimal-report-missing", f"no minimal report on stdout: {run.out[:200]!r}")
        else:
            exp = dict(in_reads=rc["input"], in_bp=bp["input"], too_short=nz(filtered.get("too_short")), too_long=nz(filtered.get("too_long")),
                       too_many_n=nz(filtered.get("too_many_n")), out_reads=rc["output"], out_bp=bp["output_read1"])
            exp["w/adapters"] = nz(rc["read1_with_adapter"])
            exp["qualtrim_bp"] = nz(bp["quality_trimmed_read1"])
            if sc.paired:
                exp["w/adapters2"] = nz(rc["read2_with_adapter"])
                exp["qualtrim2_bp"] = nz(bp["quality_trimmed_read2"])
                exp["out2_bp"] = bp["output_read2"]
            for k, v in exp.items():
                if str(mr.get(k)) != str(v):
                    viol("minimal-report", f"minimal report {k}={mr.get(k)}, JSON says {v}")
            ctx.count("minimal_reports_checked")
    else:
        tr = F.parse_text_report(run.out)
        if "input" not in tr:
            if n > 0:
                viol("text-report-missing", f"no text report on stdout: {run.out[:200]!r}")
        else:
            exp = dict(input=rc["input"], written=rc["output"], total_bp=bp["input"], written_bp=bp["output"])
            if rc["read1_with_adapter"] is not None:
                exp["with_adapter1"] = rc["read1_with_adapter"]
            if sc.paired and rc["read2_with_adapter"] is not None:
                exp["with_adapter2"] = rc["read2_with_adapter"]
            if bp["quality_trimmed"] is not None:
                exp["quality_trimmed"] = bp["quality_trimmed"]
            if bp["poly_a_trimmed"] is not None:
                exp["poly_a_trimmed"] = bp["poly_a_trimmed"]
            for k, v in filtered.items():
                if v is not None:
                    exp[k] = v
            for k, v in exp.items():
                if tr.get(k) != v:
                    viol("text-report", f"text report {k}={tr.get(k)}, JSON says {v}", key=k)
            if sc.paired:
                # the per-read lines below a figure name the read they belong to
                for k, j1, j2 in (("total_bp", "input_read1", "input_read2"), ("quality_trimmed", "quality_trimmed_read1", "quality_trimmed_read2"),
                                  ("poly_a_trimmed", "poly_a_trimmed_read1", "poly_a_trimmed_read2"), ("written_bp", "output_read1", "output_read2")):
                    if k not in tr:
                        continue
                    want_lines = {i: bp[j] for i, j in ((1, j1), (2, j2)) if bp.get(j) is not None}
                    if tr.get("_per_read:" + k) != want_lines:
                        viol("text-report", f"text report lines below {k}: {tr.get('_per_read:' + k)}, JSON says {want_lines}", key=k + "/per-read")
                ctx.count("text_reports_with_per_read_lines")
            fate_total = sum(int(v.replace(",", "")) for _, v in tr["_fate_lines"])
            # fate lines = all filter categories + 'written'
            if tr["_fate_lines"] and fate_total != rc["input"]:
                viol("text-fate-breakdown", f"'Read fate breakdown' lines sum to {fate_total}, input is {rc['input']}: {tr['_fate_lines']}",
                     max_aer="max_aer" in sc.fopts)
            ctx.count("text_reports_checked")
    return True


def one_case(ctx, k):
    rng = ctx.rng("c04", k)
    d = os.path.join(ctx.scratch, f"c{k}")
    os.makedirs(d, exist_ok=True)
    try:
        demux = rng.choice([None, None, None, "normal", "normal", "combinatorial"])
        sc = F.observe(ctx, rng, d, dict(demux=demux, trace=True, unknown_name_p=0.1 if demux else 0.0, odd_names_p=0.15 if demux else 0.0, revcomp_p=0.12))
        if sc is None:
            ctx.case(None)
            return
        sc.case["k"] = k
        ctx.count("runs")
        ctx.count(f"demux:{demux}")
        ctx.count(f"cores:{sc.cores}")
        if sc.paired:
            ctx.count("paired_runs")
        ok = evaluate(ctx, sc)
        nontrivial = any(f not in ("out",) and not f.startswith("demux:") for f in sc.fates.values()) or sc.run.rc != 0
        ctx.case((" ".join(sc.argv), str(sc.recs1[:3])) if nontrivial else None)
        for f in set(sc.fates.values()):
            ctx.count("fate_seen:" + (f if not f.startswith("demux:") else "demux"))
        if ok:
            ctx.sample(dict(argv=sc.argv, n_reads=len(sc.recs1), fates={f: list(sc.fates.values()).count(f) for f in set(sc.fates.values())}), limit=5)
    finally:
        shutil.rmtree(d, ignore_errors=True)


def dup_case(ctx, k):
    """The same path given to two outputs, the file existing beforehand or not: either the run is refused, or every
    read is still in that file exactly once (two writers on one path overwrite each other)."""
    from .. import gen_cli as G

    rng = ctx.rng("c04dup", k)
    d = os.path.join(ctx.scratch, f"dup{k}")
    os.makedirs(d, exist_ok=True)
    try:
        ad = G.gen_adapter(rng, 0, kinds=["a"])
        recs, _ = G.gen_reads(rng, rng.randint(30, 120), False, [ad], maxlen=30, qual_profile="high")
        inputs = climon.write_inputs(d, recs)
        name = rng.choice(["dup.fastq", "dup.fq", "sub/../dup.fastq"]) if rng.random() < 0.8 else "dup.fastq.gz"
        os.makedirs(os.path.join(d, "sub"), exist_ok=True)
        which = rng.choice(["too-short", "too-long", "untrimmed"])
        if which == "too-short":
            extra = ["-m", "12", "--too-short-output", name]
        elif which == "too-long":
            extra = ["-M", "18", "--too-long-output", name]
        else:
            extra = ["--untrimmed-output", name]
        preexisting = rng.random() < 0.6
        if preexisting:
            r0 = climon.run(d, ad["argv"] + ["-o", name] + inputs, tag="first", trace=False)
            if r0.rc != 0:
                return
        shape = rng.choice(["two-record-outputs", "two-record-outputs", "record-and-text", "record-and-json", "pair-same-file", "pair-shared-first-file",
                            "stdout-and-dash", "expanded-name-shares-one-file", "two-spellings", "two-spellings", "text-equals-expanded-name", "expanded-pair-same-file",
                            "redirect-equals-expanded-name", "redirect-equals-expanded-name"])
        ctx.count("duplicate_path_shape:" + shape)
        if shape == "two-spellings":
            # one file under two spellings
            other = rng.choice(["./dup.fastq", "sub/../dup.fastq", ".//dup.fastq", os.path.join(d, "dup.fastq"), "link.fastq", "sublink/dup.fastq"])
            if other == "link.fastq":
                # a symbolic link to the file
                if not os.path.lexists(os.path.join(d, "link.fastq")):
                    os.symlink("dup.fastq", os.path.join(d, "link.fastq"))
            elif other == "sublink/dup.fastq":
                # the same directory under a second, symbolically linked name
                if not os.path.lexists(os.path.join(d, "sublink")):
                    os.symlink(".", os.path.join(d, "sublink"))
            if rng.random() < 0.5:
                argv = ad["argv"] + ["-m", "12", "--too-short-output", other, "-o", "dup.fastq", "--json", "rep.json"] + inputs
                want_n = len(recs)
            else:
                argv = ad["argv"] + ["-o", "dup.fastq", "-p", other, "--json", "rep.json"] + inputs + inputs
                want_n = 2 * len(recs)
            run = climon.run(d, argv, tag="dup", trace=False)
            ctx.count("duplicate_path_runs")
            ctx.case(("dup", str(argv), shape))
            case = climon.case_record(argv, d, inputs)
            case["dup_k"] = k
            if run.rc != 0:
                ctx.count("duplicate_path_refused")
                return
            fo = run.records("dup.fastq")
            got = len(fo[1]) if fo and fo[0] != "error" else None
            if got != want_n:
                ctx.violation("duplicate-path-clobbered", f"one file given under two spellings ({other} and dup.fastq) was accepted; exit 0, but the file holds {got} parseable "
                              f"records of the {want_n} written; argv={argv}", case, facts=dict(shape=shape))
            return
        if shape == "expanded-pair-same-file":
            # the two templates of a pair expand to the same path for one name combination
            nm = ad["name"]
            spec2 = ad["argv"][1].split("=", 1)[1]
            argv = [ad["argv"][0], ad["argv"][1], ad["argv"][0].upper(), f"{nm}={spec2}", "--discard-untrimmed",
                    "-o", "e.{name1}-{name2}.fq", "-p", "e.{name2}-{name1}.fq", "--json", "rep.json"] + inputs + inputs
            run = climon.run(d, argv, tag="dup", trace=False)
            ctx.count("duplicate_path_runs")
            ctx.case(("dup", str(argv), shape))
            case = climon.case_record(argv, d, inputs)
            case["dup_k"] = k
            if run.rc != 0:
                ctx.count("duplicate_path_refused")
                return
            n_out = run.json_report()["read_counts"]["output"]
            fo = run.records(f"e.{nm}-{nm}.fq")
            got = len(fo[1]) if fo and fo[0] != "error" else None
            if got != 2 * n_out:
                ctx.violation("duplicate-path-clobbered", f"both files of a pair expand to e.{nm}-{nm}.fq; exit 0, {n_out} pairs written, the file holds {got} parseable records; argv={argv}",
                              case, facts=dict(shape=shape))
            return
        if shape == "redirect-equals-expanded-name":
            # the file of a filter redirect is also the demultiplexed file of one adapter (or of the reads without adapter)
            nm = rng.choice([ad["name"], ad["name"], "unknown"])
            paired = rng.random() < 0.4
            which2 = rng.choice(["too-short", "too-long"])
            flt = ["-m", "12"] if which2 == "too-short" else ["-M", "18"]
            if paired:
                argv = ad["argv"] + flt + [f"--{which2}-output", f"r.{nm}.1.fq", f"--{which2}-paired-output", f"r.{nm}.2.fq",
                                           "-o", "r.{name}.1.fq", "-p", "r.{name}.2.fq", "--json", "rep.json"] + inputs + inputs
                finals = [f"r.{x}.1.fq" for x in (ad["name"], "unknown")]
            else:
                argv = ad["argv"] + flt + [f"--{which2}-output", f"r.{nm}.fq", "-o", "r.{name}.fq", "--json", "rep.json"] + (["-j", "2"] if rng.random() < 0.3 else []) + inputs
                finals = [f"r.{x}.fq" for x in (ad["name"], "unknown")]
            run = climon.run(d, argv, tag="dup", trace=False)
            ctx.count("duplicate_path_runs")
            ctx.case(("dup", str(argv), shape))
            case = climon.case_record(argv, d, inputs)
            case["dup_k"] = k
            if run.rc != 0:
                ctx.count("duplicate_path_refused")
                return
            n_out = run.json_report()["read_counts"]["output"]
            got = 0
            for f in finals:
                fo = run.records(f)
                if fo and fo[0] != "error":
                    got += len(fo[1])
                elif fo:
                    got = None
                    break
            if got != n_out:
                ctx.violation("duplicate-path-clobbered", f"the redirect file of --{which2}-output is also the demultiplexed file r.{nm}.*; exit 0, report says {n_out} "
                              f"reads written, the demultiplexed files hold {got} parseable records; argv={argv}", case, facts=dict(shape=shape))
            return
        if shape == "text-equals-expanded-name":
            nm = ad["name"]
            text_opt = rng.choice(["--info-file", "--rest-file", "--json"])
            argv = ad["argv"] + ["-o", "t.{name}.fq", text_opt, f"t.{nm}.fq"] + (["--json", "rep.json"] if text_opt != "--json" else []) + (["-j", "2"] if rng.random() < 0.3 else []) + inputs
            run = climon.run(d, argv, tag="dup", trace=False)
            ctx.count("duplicate_path_runs")
            ctx.case(("dup", str(argv), shape))
            case = climon.case_record(argv, d, inputs)
            case["dup_k"] = k
            if run.rc != 0:
                ctx.count("duplicate_path_refused")
                return
            fo = run.records(f"t.{nm}.fq")
            want_n = sum(1 for key, f in [(None, None)] if False)   # computed below
            if text_opt == "--json":
                # the report itself sits where the reads should be: nothing to read the count from, the file must hold records
                got = len(fo[1]) if fo and fo[0] != "error" and fo[1] else None
                if got is None:
                    ctx.violation("duplicate-path-clobbered", f"the JSON report and the demultiplexed file of adapter {nm} are one path; exit 0, the file holds no "
                                  f"parseable records; argv={argv}", case, facts=dict(shape=shape))
                return
            trimmed = run.json_report()["read_counts"]["read1_with_adapter"]
            got = len(fo[1]) if fo and fo[0] != "error" else None
            if got != trimmed:
                ctx.violation("duplicate-path-clobbered", f"a text output and the demultiplexed file of adapter {nm} are one path; exit 0, {trimmed} reads belong in that file, it holds "
                              f"{got} parseable records; argv={argv}", case, facts=dict(shape=shape))
            return
        if shape in ("stdout-and-dash", "expanded-name-shares-one-file"):
            # collisions that only exist after defaults / {name} templates are resolved
            if shape == "stdout-and-dash":
                argv = ad["argv"] + ["-m", "12", "--too-short-output", "-", "--json", "rep.json"] + inputs
                files1 = None
            else:
                nm = ad["name"]
                argv = ad["argv"] + ["-o", "d.{name}.1.fq", "-p", "d.{name}.2.fq", "--untrimmed-output", f"d.{nm}.1.fq",
                                     "--untrimmed-paired-output", "UNT.2.fq", "--json", "rep.json"] + (["-j", "2"] if rng.random() < 0.3 else []) + inputs + inputs
                files1 = [f"d.{nm}.1.fq"]
            run = climon.run(d, argv, tag="dup", trace=False)
            ctx.count("duplicate_path_runs")
            ctx.case(("dup", str(argv), shape))
            case = climon.case_record(argv, d, inputs)
            case["dup_k"] = k
            if run.rc != 0:
                ctx.count("duplicate_path_refused")
                return
            n_out = run.json_report()["read_counts"]["output"]
            if files1 is None:
                try:
                    got = len(fastx.parse_fastq(run.out, strict=False))
                except fastx.ParseError:
                    got = None
            else:
                fo = run.records(files1[0])
                got = len(fo[1]) if fo and fo[0] != "error" else None
            if got != n_out:
                ctx.violation("duplicate-path-clobbered", f"two outputs resolve to one destination ({shape}); exit 0, report says {n_out} reads written, the destination holds "
                              f"{got} parseable records; argv={argv}", case, facts=dict(shape=shape))
            return
        if shape == "record-and-json":
            # the JSON report written over a record output
            argv = ad["argv"] + ["-m", "12", "--too-short-output", "ts.fq", "-o", name, "--json", rng.choice([name, name, "ts.fq"])] + inputs
            run = climon.run(d, argv, tag="dup", trace=False)
            ctx.count("duplicate_path_runs")
            ctx.case(("dup", str(argv), shape))
            case = climon.case_record(argv, d, inputs)
            case["dup_k"] = k
            if run.rc != 0:
                ctx.count("duplicate_path_refused")
                return
            fo, ft = run.records(name), run.records("ts.fq")
            n1 = len(fo[1]) if fo and fo[0] != "error" else None
            n2 = len(ft[1]) if ft and ft[0] != "error" else None
            if n1 is None or n2 is None or n1 + n2 != len(recs):
                ctx.violation("duplicate-path-clobbered", f"the JSON report shares its path with a record output; exit 0, the two record files hold {n1} and {n2} "
                              f"parseable records of {len(recs)} reads; argv={argv}", case, facts=dict(shape=shape))
            return
        if shape == "record-and-text":
            extra = [rng.choice(["--info-file", "--rest-file"]), name]
        elif shape == "pair-same-file":
            # both mates into one path (not interleaved): -o X -p X
            extra = ["-p", name]
            inputs = inputs + inputs
        elif shape == "pair-shared-first-file":
            extra = ["-m", "12", "--too-short-output", name, "--too-short-paired-output", "ts2.fastq", "-p", "o2.fastq"]
            inputs = inputs + inputs
        argv = ad["argv"] + extra + ["-o", name, "--json", "rep.json"] + (["-j", "2"] if rng.random() < 0.3 else []) + inputs
        run = climon.run(d, argv, tag="dup", trace=False)
        ctx.count("duplicate_path_runs")
        ctx.case(("dup", str(argv), preexisting))
        case = climon.case_record(argv, d, inputs)
        case["dup_k"] = k
        if run.rc != 0:
            ctx.count("duplicate_path_refused")
            return
        fo = run.records(name)
        ids = sorted(fastx.rid(x[0]) for x in fo[1]) if fo and fo[0] != "error" else None
        want = sorted(fastx.rid(r[0]) for r in recs)
        if shape == "pair-same-file":
            want = sorted(want + want)    # both mates of every pair
        n_out = run.json_report()["read_counts"]["output"]
        if shape == "two-record-outputs" and ids is not None and ids == want and len(ids) != n_out:
            # nothing clobbered, but the final output file also holds the redirected reads
            ctx.violation("duplicate-path-clobbered", f"the path {name} was accepted as -o and as a redirect file (file existed before: {preexisting}); exit 0, report says "
                          f"{n_out} reads written, the file holds {len(ids)} records; argv={argv}", case, facts=dict(preexisting=preexisting, shape=shape))
        elif ids != want:
            ctx.violation("duplicate-path-clobbered", f"the path {name} was accepted for two outputs (file existed before: {preexisting}); exit 0, report says "
                          f"{run.json_report()['read_counts']}, but the file holds {None if ids is None else len(ids)} parseable records of {len(recs)} reads; argv={argv}",
                          case, facts=dict(preexisting=preexisting))
    finally:
        shutil.rmtree(d, ignore_errors=True)


def stdout_mate_case(ctx, k):
    """The second file of an output pair on standard output ('-p -', '--too-short-paired-output -' ...): standard output
    is then a final output file like any other and holds exactly the records the report counts for that destination."""
    from .. import gen_cli as G

    rng = ctx.rng("c04stdout", k)
    d = os.path.join(ctx.scratch, f"so{k}")
    os.makedirs(d, exist_ok=True)
    try:
        ad = G.gen_adapter(rng, 0, kinds=["a"])
        recs1, recs2 = G.gen_reads(rng, rng.randint(20, 60), True, [ad], [ad], maxlen=30, qual_profile="high")
        inputs = climon.write_inputs(d, recs1, recs2)
        shape = rng.choice(["-p", "-p", "too-short", "too-long", "untrimmed"])
        cores = ["-j", "2"] if rng.random() < 0.3 else []
        if shape == "-p":
            argv = ad["argv"] + cores + ["-o", "o1.fq", "-p", "-"]
            partner, key = "o1.fq", ("read_counts", "output")
        elif shape == "too-short":
            argv = ad["argv"] + cores + ["-m", "14", "--too-short-output", "s1.fq", "--too-short-paired-output", "-", "-o", "o1.fq", "-p", "o2.fq"]
            partner, key = "s1.fq", ("read_counts", "filtered", "too_short")
        elif shape == "too-long":
            argv = ad["argv"] + cores + ["-M", "16", "--too-long-output", "s1.fq", "--too-long-paired-output", "-", "-o", "o1.fq", "-p", "o2.fq"]
            partner, key = "s1.fq", ("read_counts", "filtered", "too_long")
        else:
            argv = ad["argv"] + cores + ["--untrimmed-output", "s1.fq", "--untrimmed-paired-output", "-", "-o", "o1.fq", "-p", "o2.fq"]
            partner, key = "s1.fq", ("read_counts", "filtered", "discard_untrimmed")
        argv += ["--json", "rep.json"] + inputs
        run = climon.run(d, argv, tag="so", trace=False)
        ctx.count("second_mate_on_standard_output_runs")
        ctx.case(("stdout-mate", str(argv)))
        case = climon.case_record(argv, d, inputs)
        case.update(so_k=k)
        if run.rc != 0:
            ctx.count("runs_failed")
            return
        want = run.json_report()
        for part in key:
            want = want[part]
        fo = run.records(partner)
        n_partner = len(fo[1]) if fo and fo[0] != "error" else None
        try:
            got = fastx.parse_fastq(run.out, strict=True)
        except fastx.ParseError as e:
            ctx.violation("stdout-not-records", f"standard output is the second file of the pair ({shape}) but does not parse as FASTQ: {e}; "
                          f"it starts with {run.out[:120]!r}; argv={argv}", case, facts=dict(shape=shape))
            return
        ids = [fastx.rid(r[0]) for r in got]
        pids = [fastx.rid(r[0]) for r in fo[1]] if n_partner is not None else None
        if len(got) != want or ids != pids:
            ctx.violation("stdout-count", f"standard output is the second file of the pair ({shape}): it holds {len(got)} records, its partner file {n_partner}, "
                          f"the report counts {want}; argv={argv}", case, facts=dict(shape=shape))
    finally:
        shutil.rmtree(d, ignore_errors=True)


def run_shard(ctx):
    for k in range(ctx.scale(6, 60)):
        dup_case(ctx, ctx.shard * 100000 + k)
    for k in range(ctx.scale(3, 40)):
        stdout_mate_case(ctx, ctx.shard * 100000 + k)
    for k in range(ctx.scale(150, 4000)):
        if ctx.out_of_time():
            ctx.count("stopped_on_time_budget")
            break
        one_case(ctx, ctx.shard * 100000 + k)


def verdict_hook(merged, tier):
    c = merged["counters"]
    out = []
    if c.get("runs", 0) and (c.get("runs_failed", 0) + c.get("baseline_failed", 0)) > 0.2 * c["runs"]:
        out.append(f"{c.get('runs_failed', 0)}+{c.get('baseline_failed', 0)} of {c['runs']} runs exited non-zero: {merged['extra'].get('failed_example', merged['extra'].get('baseline_failed_example', ['']))[0]}")
    return out


def replay(ctx, case):
    if "dup_k" in case:
        ctx.shard = case["dup_k"] // 100000
        dup_case(ctx, case["dup_k"])
        return
    if "so_k" in case:
        ctx.shard = case["so_k"] // 100000
        stdout_mate_case(ctx, case["so_k"])
        return
    ctx.shard = case["k"] // 100000
    one_case(ctx, case["k"])
