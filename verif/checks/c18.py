"""C18 - adapter specifications mean what the documented notation says."""
import os
import shutil

from .. import climon, refmodel as R

ID = "C18"
LEVEL = "exploration"
ENGINES = ["alnmon", "climon"]
TECHNIQUE = "generate specification strings from a structured description (expected class/attributes known by construction), monitor the objects built by the real make_adapters_from_specifications + behavioural probes + CLI exit status for documented invalid combinations"
LEVEL_TEXT = ("Specification strings are generated from a structured description (type x restriction x name x brace expansion x parameter "
              "subset with every abbreviation x linked combinations x file:/^file:/file$: with file- and record-level parameters x global "
              "options); the objects returned by the real parser are compared attribute by attribute with what the notation documents, each "
              "built adapter is probed with three reads (internal, partial at the end, anchored) against the documented placement table, and "
              "documented invalid combinations must be rejected by the real CLI with exit status 2 and a message.")
LEVEL_TEXT += ' The same meaning is checked through the real command line: global -e/-O/--no-indels with specifications on the command line are read back from the adapter section of the JSON report; ten kinds of invalid-by-construction specifications are generated and must be rejected with the exception types that become exit status 2; adapter files contain linked records and file-level flags.'
LEVEL_TEXT += " Adapter files given by relative names; probes: what ';anywhere' adds, an occurrence with one base missing where indels are on (types that cannot skip the adapter start), literal N under -N; o=0 must be rejected."
LEVEL_TEXT += ' A file or directory named like the adapter sequence in the working directory must change nothing.'
LEVEL_TEXT += ' Adapter names with braces.'
LEVEL_NOTE = ("Trusted base: the generator's structured description (written from doc/guide.rst and doc/reference.rst). Error values giving a "
              "rate >= 1 are outside the domain and not generated; file-level parameters: e/o/indels/noindels and the flags anywhere/rightmost.")
VARIANTS = {"quick": ["plain"], "thorough": ["plain"]}
BUDGET_S = {"quick": 150, "thorough": 3000}
FLOORS = {"quick": 5000, "thorough": 150000}
RULE = ("Seeded random specifications; every one is non-trivial (the parser must build the documented search); distinct by "
        "(specification string, file content, global options).")
ASSUMPTIONS = [
    "generated sequences never start/end with X so that restrictions are unambiguous",
    "behavioural probes use error-free occurrences only (placement semantics, not tolerance)",
]


def rnd(rng, n, al="ACGT"):
    return "".join(rng.choice(al) for _ in range(n))


def brace(rng, seq):
    out = ""
    i = 0
    while i < len(seq):
        j = i
        while j < len(seq) and seq[j] == seq[i]:
            j += 1
        run = j - i
        if run >= 2 and rng.random() < 0.6:
            out += f"{seq[i]}{{{run}}}"
        elif rng.random() < 0.1:
            out += f"{seq[i]}{{1}}" + seq[i] * (run - 1)
        else:
            out += seq[i] * run
        i = j
    return out


def gen_single(rng, typ, allow_restr=True, allow_flags=True):
    seq = rnd(rng, rng.randint(3, 12), rng.choice(["ACGT", "ACGT", "ACGTN", "ACGTUI", "acgt", "ACGTRYK"]))
    if set(seq.upper()) <= set("NI"):
        seq = "A" + seq
    restr = None
    if allow_restr and typ != "anywhere" and rng.random() < 0.6:
        restr = rng.choice(["anchored", "noninternal"])
    text = brace(rng, seq)
    if restr == "anchored":
        text = ("^" + text) if typ == "front" else (text + "$")
    if restr == "noninternal":
        text = (rng.choice(["X", "XX", "x"]) + text) if typ == "front" else (text + rng.choice(["X", "XXX"]))
    params = {}
    ptxt = []
    norm = R.normalize_adapter(seq)
    non_n = len(norm) - norm.count("N")
    if rng.random() < 0.5:
        v = rng.choice([0, 0.05, 0.2, 0.3, 1, 2, 2.5])
        if v >= 1 and v / non_n >= 1:
            v = 0.2
        key = rng.choice(["e", "max_errors", "max_error_rate", "error_rate"])
        params["e"] = v
        ptxt.append(f"{key}={v}")
    if rng.random() < 0.4 and restr != "anchored":
        v = rng.randint(1, 15)
        key = rng.choice(["o", "min_overlap"])
        params["o"] = v
        ptxt.append(f"{key}={v}")
    if rng.random() < 0.3:
        v = rng.choice(["indels", "noindels"])
        params["indels"] = v == "indels"
        ptxt.append(v)
    if allow_flags and rng.random() < 0.2 and restr is None and typ != "anywhere":
        params["anywhere"] = True
        ptxt.append("anywhere")
    if allow_flags and rng.random() < 0.2 and restr is None and typ == "front":
        params["rightmost"] = True
        ptxt.append("rightmost")
    rng.shuffle(ptxt)
    if rng.random() < 0.1:
        ptxt = [" " + p + " " for p in ptxt]
    return dict(seq=seq, restr=restr, text=text, params=params, ptxt=ptxt, typ=typ)


def classes():
    import cutadapt.adapters as A

    return {
        ("back", None): A.BackAdapter, ("back", "anchored"): A.SuffixAdapter, ("back", "noninternal"): A.NonInternalBackAdapter,
        ("front", None): A.FrontAdapter, ("front", "anchored"): A.PrefixAdapter, ("front", "noninternal"): A.NonInternalFrontAdapter,
        ("anywhere", None): A.AnywhereAdapter, "rightmost": A.RightmostFrontAdapter, "linked": A.LinkedAdapter,
    }


def expect_single(d, glob, name):
    CLS = classes()
    seq = R.normalize_adapter(d["seq"])
    cls = CLS[(d["typ"], d["restr"])]
    if d["params"].get("rightmost"):
        cls = CLS["rightmost"]
    e = d["params"].get("e", glob["e"])
    non_n = len(seq) - seq.count("N")
    rate = e / non_n if e >= 1 else e
    o = d["params"].get("o", glob["o"])
    if d["restr"] == "anchored":
        o = len(seq)
    o = min(o, len(seq))
    return dict(cls=cls, seq=seq, rate=rate, o=o, indels=d["params"].get("indels", glob["indels"]), name=name,
                fa=bool(d["params"].get("anywhere")) and d["restr"] is None and d["typ"] != "anywhere",
                aw=glob["aw"] and not set(seq) <= set("ACGT"), rw=glob["rw"])


def check_single(ad, ex, ctx_txt, problems):
    got = dict(cls=type(ad), seq=ad.sequence, rate=ad.max_error_rate, o=ad.min_overlap, indels=ad.indels, name=ad.name,
               fa=bool(getattr(ad, "_force_anywhere", False)), aw=ad.adapter_wildcards, rw=ad.read_wildcards)
    for k in ex:
        if k == "name" and ex[k] is None:
            continue
        a, b = got[k], ex[k]
        ok = abs(a - b) < 1e-12 if k == "rate" else a == b
        if not ok:
            problems.append((k, f"{ctx_txt}: {k} is {a!r}, documented {b!r}"))


def probe_behaviour(ad, ex, problems, txt):
    """Three error-free probe reads against the documented placement table."""
    seq = ex["seq"]
    core = "".join((R.IUPAC[c][0] if R.IUPAC.get(c) else "A") for c in seq) if ex["aw"] else seq
    if not ex["aw"] and not set(seq) <= set("ACGT"):
        return  # literal non-ACGT characters: probes would need the literal characters; skipped
    non_n = len(seq) - seq.count("N")
    if int(ex["rate"] * non_n) > 0 or ex["rate"] * 2 >= 1:
        return  # with errors allowed a damaged earlier placement may legitimately win over the exact copy
    flank_l, flank_r = "GTCAGTCAGT", "TGACTGACTG"
    # avoid accidental occurrences of the adapter in the flanks being the better match: use flanks unrelated by construction
    internal = flank_l + core + flank_r
    at_start = core + flank_r
    at_end = flank_l + core
    t = {ex["cls"].__name__: True}
    name = ex["cls"].__name__
    if ex["fa"]:
        name = "AnywhereAdapter"
    o_ok = len(core) >= 1
    # (found internal?, found at start?, found at end?)
    table = {
        "BackAdapter": (True, True, True), "FrontAdapter": (True, True, True), "AnywhereAdapter": (True, True, True),
        "RightmostFrontAdapter": (True, True, True),
        "PrefixAdapter": (False, True, False), "SuffixAdapter": (False, False, True),
        "NonInternalFrontAdapter": (False, True, False), "NonInternalBackAdapter": (False, False, True),
    }[name]
    eq = R.make_eq(ex["aw"], ex["rw"])
    if R.exact_full_copies(seq, flank_l, eq) or R.exact_full_copies(seq, flank_r, eq):
        return  # the adapter (with its wildcards) occurs in a flank by chance: the probe would be ambiguous
    for read, want, label, pos in ((internal, table[0], "internal", len(flank_l)), (at_start, table[1], "at the 5' end", 0),
                                   (at_end, table[2], "at the 3' end", len(flank_l))):
        if len(R.exact_full_copies(seq, read, eq)) != 1:
            continue
        m = ad.match_to(read)
        full = (m is not None and m.errors == 0 and (m.astop - m.astart) == len(seq)
                and (m.rstart, m.rstop) == (pos, pos + len(core)))
        if want and not full:
            problems.append(("behaviour", f"{txt}: error-free full occurrence {label} not found ({m})"))
        if not want and full:
            problems.append(("behaviour", f"{txt}: full occurrence {label} found although the type forbids it ({m})"))


JSON_TYPE = {"BackAdapter": "regular_three_prime", "FrontAdapter": "regular_five_prime", "AnywhereAdapter": "anywhere",
             "PrefixAdapter": "anchored_five_prime", "SuffixAdapter": "anchored_three_prime",
             "NonInternalFrontAdapter": "noninternal_five_prime", "NonInternalBackAdapter": "noninternal_three_prime",
             "RightmostFrontAdapter": "rightmost_five_prime"}


def cli_attributes_case(ctx, k):
    """The same meaning through the real command line: global options (-e, -O, --no-indels) are defaults that the
    parameters after ';' override; read back from the adapter section of the JSON report (type, sequence, error rate, indels)."""
    import json as _json

    rng = ctx.rng("c18cli", k)
    glob = dict(e=rng.choice([0.1, 0.2, 0, 0, 1, 0.05]), o=rng.choice([3, 1, 5]), indels=rng.random() < 0.6, aw=True, rw=False)
    gargs = ["-e", str(glob["e"]), "-O", str(glob["o"])] + ([] if glob["indels"] else ["--no-indels"])
    specs, argv_ads = [], []
    for i in range(rng.randint(1, 4)):
        typ = rng.choice(["front", "back", "anywhere"])
        d = gen_single(rng, typ, allow_flags=False)
        if rng.random() < 0.15 and typ == "front" and d["restr"] is None:
            d["params"]["rightmost"] = True
            d["ptxt"].append("rightmost")
        norm = R.normalize_adapter(d["seq"])
        e_eff = d["params"].get("e", glob["e"])
        if e_eff >= 1 and e_eff / max(1, len(norm) - norm.count("N")) >= 1:
            continue
        name = f"n{i}"
        spec = f"{name}=" + d["text"] + (";" + ";".join(d["ptxt"]) if d["ptxt"] else "")
        specs.append((d, name, spec, typ))
        argv_ads += [{"front": "-g", "back": "-a", "anywhere": "-b"}[typ], spec]
    if not specs:
        ctx.case(None)
        return
    d_ = os.path.join(ctx.scratch, f"cliattr{k}")
    os.makedirs(d_, exist_ok=True)
    try:
        with open(os.path.join(d_, "in.fq"), "w") as f:
            f.write("@r1\nACGTACGTACGT\n+\nIIIIIIIIIIII\n")
        argv = gargs + argv_ads
        rng.shuffle(argv_ads)   # only a record; the real order is kept below
        argv = (gargs + [x for sp in specs for x in ({"front": "-g", "back": "-a", "anywhere": "-b"}[sp[3]], sp[2])]) if rng.random() < 0.5 else \
               ([x for sp in specs for x in ({"front": "-g", "back": "-a", "anywhere": "-b"}[sp[3]], sp[2])] + gargs)
        argv += ["--json", "rep.json", "-o", "out.fq", "in.fq"]
        run = climon.run(d_, argv, tag="attr", trace=False, timeout=60)
        case = dict(cli_attr=True, k=k, argv=argv)
        ctx.case(("cliattr", str(argv)))
        ctx.count("cli_attribute_runs")
        if run.rc != 0:
            ctx.violation("rejected", f"valid command line rejected (exit {run.rc}): {run.err.strip().splitlines()[-1][:200] if run.err.strip() else ''}; argv={argv}", case, klass="cli")
            return
        with open(os.path.join(d_, "rep.json")) as f:
            rep = _json.load(f)["adapters_read1"]
        if len(rep) != len(specs):
            ctx.violation("count", f"{len(rep)} adapters in the report for {len(specs)} specifications; argv={argv}", case, klass="cli")
            return
        for (d, name, spec, typ), ar in zip(specs, rep):
            ex = expect_single(d, glob, name)
            want_type = JSON_TYPE[ex["cls"].__name__]
            ends = [e for e in (ar["five_prime_end"], ar["three_prime_end"]) if e]
            for e in ends:
                got = dict(type=e["type"], seq=e["sequence"], rate=e["error_rate"], indels=e["indels"])
                for key, a, b in (("cls", got["type"], want_type), ("seq", got["seq"], ex["seq"]), ("indels", got["indels"], ex["indels"])):
                    if a != b:
                        ctx.violation(key, f"command line {argv}: adapter {name} ({spec}) reported with {key}={a!r}, documented {b!r}", case, klass="cli" + key)
                if abs(got["rate"] - ex["rate"]) > 1e-9:
                    ctx.violation("rate", f"command line {argv}: adapter {name} ({spec}) reported with error rate {got['rate']!r}, documented {ex['rate']!r}", case, klass="clirate")
            if ar["name"] != name:
                ctx.violation("name", f"command line {argv}: adapter reported as {ar['name']!r}, documented {name!r}", case, klass="cliname")
    finally:
        shutil.rmtree(d_, ignore_errors=True)


def gen_invalid(ctx, rng):
    """A generated valid specification made invalid in one documented way: it must be rejected with one of the
    exception types the command line turns into an error message and exit status 2."""
    from cutadapt.parser import make_adapters_from_specifications
    from cutadapt.adapters import InvalidCharacter

    sp = dict(max_errors=0.1, min_overlap=3, read_wildcards=False, adapter_wildcards=True, indels=True)
    typ = rng.choice(["front", "back", "anywhere"])
    how = rng.choice(["o-anchored", "o-anchored-linked", "rightmost-wrong", "required-single", "b-restricted", "b-linked",
                      "indels-both", "twice", "required-both", "two-restrictions", "o-zero"])
    join = lambda d: d["text"] + (";" + ";".join(d["ptxt"]) if d["ptxt"] else "")

    def anchored(t):
        while True:
            d = gen_single(rng, t, allow_flags=False)
            if d["restr"] == "anchored":
                return d

    if how == "o-anchored":
        typ = rng.choice(["front", "back"])
        d = anchored(typ)
        d["ptxt"].insert(rng.randint(0, len(d["ptxt"])), rng.choice(["o=3", "min_overlap=5"]))
        spec = join(d)
    elif how == "o-anchored-linked":
        typ = rng.choice(["front", "back"])
        f, b = gen_single(rng, "front", allow_flags=False), gen_single(rng, "back", allow_flags=False)
        if rng.random() < 0.5:
            f = anchored("front"); f["ptxt"].append("o=2")
        else:
            b = anchored("back"); b["ptxt"].append("min_overlap=4")
        spec = join(f) + "..." + join(b)
    elif how == "rightmost-wrong":
        typ = rng.choice(["front", "back"])
        d = gen_single(rng, typ, allow_flags=False)
        if typ == "front" and d["restr"] is None:
            typ = "back"
            d = gen_single(rng, typ, allow_flags=False)
        d["ptxt"].append("rightmost")
        spec = join(d)
    elif how == "required-single":
        d = gen_single(rng, typ, allow_flags=False)
        d["ptxt"].append(rng.choice(["required", "optional"]))
        spec = join(d)
    elif how == "b-restricted":
        typ = "anywhere"
        d = gen_single(rng, rng.choice(["front", "back"]), allow_flags=False)
        if d["restr"] is None:
            d["text"] = "^" + d["text"]
        spec = join(d)
    elif how == "b-linked":
        typ = "anywhere"
        spec = join(gen_single(rng, "front", allow_restr=False, allow_flags=False)) + "..." + join(gen_single(rng, "back", allow_restr=False, allow_flags=False))
    elif how == "o-zero":
        # the overlap must be at least 1 (-O says so); for one adapter it is given as o=/min_overlap=
        while True:
            d = gen_single(rng, typ, allow_flags=False)
            if d["restr"] != "anchored":
                break
        d["ptxt"] = [p for p in d["ptxt"] if not (p.strip().startswith("o=") or p.strip().startswith("min_overlap"))] + [rng.choice(["o=0", "min_overlap=0", "o=-1"])]
        spec = join(d)
    elif how == "indels-both":
        d = gen_single(rng, typ, allow_flags=False)
        d["ptxt"] = [p for p in d["ptxt"] if "indels" not in p] + ["indels", "noindels"]
        spec = join(d)
    elif how == "twice":
        d = gen_single(rng, typ, allow_flags=False)
        d["ptxt"] = [p for p in d["ptxt"] if "=" not in p or p.strip()[0] == "o" or p.strip().startswith("min_")] + ["e=0.1", rng.choice(["max_error_rate=0.2", "error_rate=0.1", "max_errors=0.3"])]
        spec = join(d)
    elif how == "required-both":
        typ = rng.choice(["front", "back"])
        f, b = gen_single(rng, "front", allow_flags=False), gen_single(rng, "back", allow_flags=False)
        x = rng.choice([f, b])
        x["ptxt"] += ["required", "optional"]
        spec = join(f) + "..." + join(b)
    else:
        typ = rng.choice(["front", "back"])
        d = gen_single(rng, typ, allow_restr=False, allow_flags=False)
        d["text"] = ("^" + d["text"] + "X") if typ == "front" else ("X" + d["text"] + "$")
        spec = join(d)
    ctx.case(("invalid", how, spec, typ))
    ctx.count("generated_invalid:" + how)
    case = dict(invalid_api=True, spec=spec, typ=typ, sp=sp)
    try:
        ads = make_adapters_from_specifications([(typ, spec)], sp)
    except (KeyError, ValueError, InvalidCharacter):
        return
    except Exception as e:
        ctx.violation("invalid-crashes", f"invalid specification ({how}) {spec!r} as {typ}: {type(e).__name__}: {e} instead of an error message", case, klass=how)
        return
    ctx.violation("invalid-accepted", f"invalid specification ({how}) {spec!r} as {typ} was accepted: {ads}", case, klass=how)


def probe_indels(ad, ex, problems, txt):
    """'indels' (the default, or given against a global --no-indels) means that an occurrence with one base missing is
    found as soon as one error is allowed - for every adapter type, anchored ones included."""
    seq = ex["seq"]
    if not ex["indels"] or len(seq) < 6 or ex["fa"]:
        return
    # only the types that cannot skip the beginning of the adapter: for the others the aligner keeps one start position per
    # cell and may keep the one that fails the error-rate test (the restriction C02 states)
    if ex["cls"].__name__ not in ("BackAdapter", "NonInternalBackAdapter", "SuffixAdapter", "PrefixAdapter", "RightmostFrontAdapter"):
        return
    if ex["aw"]:
        core = "".join((R.IUPAC[c][0] if R.IUPAC.get(c) else "A") for c in seq)
        eff = len(seq) - seq.count("N")
    else:
        if ex["rw"] and not set(seq) <= set("ACGT"):
            return            # with read wildcards on, a literal code in the adapter is not what the same code in the read means
        core = seq            # every character is literal (also an N under -N)
        eff = len(seq)
    if int(ex["rate"] * eff) < 1 or ex["o"] > len(seq) - 1 and ex["cls"].__name__ not in ("PrefixAdapter", "SuffixAdapter"):
        return
    cand = [p for p in range(2, len(core) - 2) if core[p] != core[p - 1] and core[p] != core[p + 1]]
    if not cand:
        return
    p = cand[len(cand) // 2]
    damaged = core[:p] + core[p + 1:]
    flank_l, flank_r = "GTCAGTCAGT", "TGACTGACTG"
    name = ex["cls"].__name__
    if name in ("PrefixAdapter", "NonInternalFrontAdapter"):
        read = damaged + flank_r
    elif name in ("SuffixAdapter", "NonInternalBackAdapter"):
        read = flank_l + damaged
    else:
        read = flank_l + damaged + flank_r
    m = ad.match_to(read)
    if m is None:
        problems.append(("behaviour", f"{txt}: indels are allowed and {int(ex['rate'] * eff)} error(s) are, but the occurrence with one base missing in "
                         f"{read!r} (adapter {core!r} without position {p}) is not found"))


def probe_anywhere(ad, ex, problems, txt):
    """';anywhere' on a 5' (3') adapter: partial matches at the end that is usually not allowed are found too (guide,
    search parameters). Probe: an error-free adapter prefix at the 3' end of the read (suffix at the 5' end)."""
    seq = ex["seq"]
    if not ex["fa"] or not set(seq) <= set("ACGT") or len(seq) < 4:
        return
    non_n = len(seq)
    if int(ex["rate"] * non_n) > 0 or ex["rate"] * 2 >= 1:
        return
    k = max(ex["o"], (len(seq) + 1) // 2)
    if k >= len(seq):
        return
    flank = "GTCAGTCAGTCA"
    front = ex["cls"].__name__ in ("FrontAdapter", "RightmostFrontAdapter")
    piece = seq[:k] if front else seq[-k:]
    if piece in flank or seq[:3] in flank or seq[-3:] in flank:
        return
    read = flank + piece if front else piece + flank
    m = ad.match_to(read)
    want = (len(flank), len(read)) if front else (0, k)
    # other error-free occurrences the flank happens to offer (adapter suffix at the 5' end, prefix at the 3' end, a full
    # copy): if one of them is as long as the planted one, only "something error-free of that length is found" is asked
    others = [L for L in range(1, len(seq) + 1)
              if (read.startswith(seq[-L:]) and (0, L) != want) or (read.endswith(seq[:L]) and (len(read) - L, len(read)) != want)]
    if seq in read or any(L >= k for L in others):
        if m is None or m.errors != 0 or m.rstop - m.rstart < k:
            problems.append(("behaviour", f"{txt}: with 'anywhere' {read!r} has error-free partial occurrences of at least {k} adapter bases at its ends, got {m}"))
        return
    if m is None or m.errors != 0 or (m.rstart, m.rstop) != want:
        problems.append(("behaviour", f"{txt}: with 'anywhere' an error-free {'prefix' if front else 'suffix'} of {k} adapter bases at the "
                         f"{'3' if front else '5'}' end of {read!r} must be found at {want}, got {m}"))


def gen_and_check(ctx, rng):
    from cutadapt.parser import make_adapters_from_specifications
    import cutadapt.adapters as A

    glob = dict(e=rng.choice([0.1, 0.2, 0, 1, 2]), o=rng.choice([3, 1, 5, 10]), indels=rng.random() < 0.7,
                aw=rng.random() < 0.8, rw=rng.random() < 0.3)
    sp = dict(max_errors=glob["e"], min_overlap=glob["o"], read_wildcards=glob["rw"], adapter_wildcards=glob["aw"], indels=glob["indels"])
    typ = rng.choice(["front", "back", "anywhere"])
    problems = []
    mode = rng.random()
    filetext = None
    spec = None
    path = None
    relative_to = old_cwd = shown = None
    try:
        if mode < 0.5:
            d = gen_single(rng, typ)
            if glob["e"] >= 1 and "e" not in d["params"]:
                norm = R.normalize_adapter(d["seq"])
                if glob["e"] / (len(norm) - norm.count("N")) >= 1:
                    ctx.count("skipped_rate_ge_1")
                    return
            name = rng.choice([None, "nm1", "my_adapter", "lib{2}", "{i7}", "v{3}x"])      # braces in a name are part of the name
            spec = (f"{name}=" if name else "") + d["text"] + (";" + ";".join(d["ptxt"]) if d["ptxt"] else "")
            ctx.count("kind:single")
            ads = make_adapters_from_specifications([(typ, spec)], sp)
            if len(ads) != 1:
                problems.append(("count", f"{spec}: {len(ads)} adapters"))
            else:
                ex = expect_single(d, glob, name)
                check_single(ads[0], ex, spec, problems)
                if not problems:
                    probe_behaviour(ads[0], ex, problems, spec)
                if not problems:
                    probe_anywhere(ads[0], ex, problems, spec)
                if not problems:
                    probe_indels(ads[0], ex, problems, spec)
        elif mode < 0.75:
            if typ == "anywhere":
                typ = "back"
            f = gen_single(rng, "front", allow_flags=False)
            b = gen_single(rng, "back", allow_flags=False)
            for x in (f, b):
                if glob["e"] >= 1 and "e" not in x["params"]:
                    norm = R.normalize_adapter(x["seq"])
                    if glob["e"] / (len(norm) - norm.count("N")) >= 1:
                        ctx.count("skipped_rate_ge_1")
                        return
            req = {}
            for side, x in (("f", f), ("b", b)):
                if rng.random() < 0.4:
                    v = rng.choice(["required", "optional"])
                    req[side] = v == "required"
                    x["ptxt"] = x["ptxt"] + [v]
            name = rng.choice([None, "lk"])
            spec = (f"{name}=" if name else "") + f["text"] + (";" + ";".join(f["ptxt"]) if f["ptxt"] else "") + "..." + b["text"] + (";" + ";".join(b["ptxt"]) if b["ptxt"] else "")
            ctx.count("kind:linked")
            ads = make_adapters_from_specifications([(typ, spec)], sp)
            ad = ads[0]
            if not isinstance(ad, A.LinkedAdapter):
                problems.append(("class", f"{spec}: built {type(ad).__name__}, documented a linked adapter"))
            else:
                if typ == "front":
                    fr, br = True, True
                else:
                    fr, br = f["restr"] is not None, b["restr"] is not None
                fr = req.get("f", fr)
                br = req.get("b", br)
                if (ad.front_required, ad.back_required) != (fr, br):
                    problems.append(("required", f"{spec} via {'-g' if typ == 'front' else '-a'}: required=({ad.front_required},{ad.back_required}), documented ({fr},{br})"))
                check_single(ad.front_adapter, expect_single(f, glob, None), spec + " [5' part]", problems)
                check_single(ad.back_adapter, expect_single(b, glob, None), spec + " [3' part]", problems)
                if name and ad.name != name:
                    problems.append(("name", f"{spec}: name {ad.name!r}, documented {name!r}"))
        else:
            recs = [gen_single(rng, typ, allow_restr=False, allow_flags=False) for _ in range(rng.randint(1, 3))]
            if typ != "anywhere" and rng.random() < 0.3:
                # a linked record: the file's anchoring applies to its outer end, its parameters to both parts
                k = rng.randrange(len(recs))
                lf = gen_single(rng, "front", allow_restr=False, allow_flags=False)
                lb = gen_single(rng, "back", allow_restr=False, allow_flags=False)
                for side, x in (("f", lf), ("b", lb)):
                    if rng.random() < 0.3:
                        v = rng.choice(["required", "optional"])
                        x["req"] = v == "required"
                        x["ptxt"] = x["ptxt"] + [v]
                recs[k] = dict(linked=(lf, lb))
            anch = rng.choice(["", "^", "$"]) if typ != "anywhere" else ""
            if anch == "^" and typ != "front":
                anch = ""
            if anch == "$" and typ != "back":
                anch = ""
            fparams, ftxt = {}, []
            if rng.random() < 0.5:
                v = rng.choice([0.05, 0.25, 2]); fparams["e"] = v; ftxt.append(f"e={v}")
            if rng.random() < 0.5 and not anch:
                v = rng.randint(1, 9); fparams["o"] = v; ftxt.append(f"o={v}")
            if rng.random() < 0.4:
                v = rng.choice(["indels", "noindels"]); fparams["indels"] = v == "indels"; ftxt.append(v)
            fflags = {}
            if not anch and typ != "anywhere" and rng.random() < 0.3 and not any("linked" in d for d in recs):
                # the flag parameters are search parameters too: given for the file they hold for every record
                fl = rng.choice(["anywhere", "rightmost"] if typ == "front" else ["anywhere"])
                fflags[fl] = True
                ftxt.insert(rng.randint(0, len(ftxt)), fl)
                ctx.count("file_level_flag:" + fl)
            g2 = dict(glob)
            g2.update(fparams)
            lines = []
            def strip_o(d):
                d["params"].pop("o", None)
                d["ptxt"] = [p for p in d["ptxt"] if not p.strip().startswith(("o=", "min_overlap="))]

            def rate_ok(d):
                e_eff = d["params"].get("e", g2["e"])
                norm = R.normalize_adapter(d["seq"])
                return not (e_eff >= 1 and e_eff / (len(norm) - norm.count("N")) >= 1)

            for k, d in enumerate(recs):
                if "linked" in d:
                    lf, lb = d["linked"]
                    if anch == "^":
                        strip_o(lf)
                    if anch == "$":
                        strip_o(lb)
                    if not (rate_ok(lf) and rate_ok(lb)):
                        ctx.count("skipped_rate_ge_1")
                        return
                    lines.append(f">rec{k} some comment\n" + lf["text"] + (";" + ";".join(lf["ptxt"]) if lf["ptxt"] else "") + "..."
                                 + lb["text"] + (";" + ";".join(lb["ptxt"]) if lb["ptxt"] else "") + "\n")
                    ctx.count("file_with_linked_record" + anch)
                    continue
                if anch:
                    strip_o(d)
                if not rate_ok(d):
                    ctx.count("skipped_rate_ge_1")
                    return
                lines.append(f">rec{k} some comment\n{d['text']}" + (";" + ";".join(d["ptxt"]) if d["ptxt"] else "") + "\n")
            filetext = "".join(lines)
            path = os.path.join(ctx.scratch, f"ad{rng.getrandbits(40)}.fa")
            if rng.random() < 0.5:
                # a relative name (what users type); the name is free: it may begin with the very letters of the notation
                rel = rng.choice(["linkers.fasta", "illumina.fa", "fwd.fa", "e/adapters.fa", "file.fa", "lib/file.fa", "i.fa", "ee.fasta", "adapters.fasta",
                                  "$x.fa", "^x.fa", "x$.fa"])
                sub = os.path.join(ctx.scratch, f"cwd{rng.getrandbits(40)}")
                os.makedirs(os.path.join(sub, os.path.dirname(rel)), exist_ok=True)
                path = os.path.join(sub, rel)
                relative_to = sub
                ctx.count("file_given_by_relative_name")
            with open(path, "w") as fh:
                fh.write(filetext)
            shown = path if relative_to is None else rel
            spec = {"": "file:", "^": "^file:", "$": "file$:"}[anch] + shown + (";" + ";".join(ftxt) if ftxt else "")
            if relative_to is not None:
                old_cwd = os.getcwd()
                os.chdir(relative_to)
            ctx.count("kind:file" + anch)
            if any(d.get("ptxt") for d in recs):
                ctx.count("file_with_record_parameters" + anch)
            trailing = None
            if rng.random() < 0.5:
                # a further specification after the file: it must get the global parameters, not the file's
                trailing = gen_single(rng, typ)
                tnorm = R.normalize_adapter(trailing["seq"])
                e_t = trailing["params"].get("e", glob["e"])
                if e_t >= 1 and e_t / (len(tnorm) - tnorm.count("N")) >= 1:
                    trailing = None
            if trailing is not None:
                tspec = "later=" + trailing["text"] + (";" + ";".join(trailing["ptxt"]) if trailing["ptxt"] else "")
                ads_all = make_adapters_from_specifications([(typ, spec), (typ, tspec)], sp)
                ads, last = ads_all[:-1], ads_all[-1]
                ctx.count("file_followed_by_another_specification")
                check_single(last, expect_single(trailing, glob, "later"), f"{tspec} given after {spec.replace(path, 'FILE')}", problems)
            else:
                ads = make_adapters_from_specifications([(typ, spec)], sp)
            if len(ads) != len(recs):
                problems.append(("count", f"{spec}: {len(ads)} adapters for {len(recs)} records"))
            for k, (ad, d) in enumerate(zip(ads, recs)):
                if "linked" in d:
                    lf, lb = d["linked"]
                    txt = f"{spec.replace(path, 'FILE')} [rec{k}: {lines[k].splitlines()[1]}]"
                    if not isinstance(ad, A.LinkedAdapter):
                        problems.append(("class", f"{txt}: built {type(ad).__name__}, documented a linked adapter"))
                        continue
                    f2, b2 = dict(lf), dict(lb)
                    f2["restr"] = "anchored" if anch == "^" else None
                    b2["restr"] = "anchored" if anch == "$" else None
                    if typ == "front":
                        fr, br = True, True
                    else:
                        fr, br = f2["restr"] is not None, b2["restr"] is not None
                    fr, br = lf.get("req", fr), lb.get("req", br)
                    if (ad.front_required, ad.back_required) != (fr, br):
                        problems.append(("required", f"{txt} via {'-g' if typ == 'front' else '-a'}: required=({ad.front_required},{ad.back_required}), documented ({fr},{br})"))
                    check_single(ad.front_adapter, expect_single(f2, g2, None), txt + " [5' part]", problems)
                    check_single(ad.back_adapter, expect_single(b2, g2, None), txt + " [3' part]", problems)
                    if ad.name != f"rec{k}":
                        problems.append(("name", f"{txt}: name {ad.name!r}, documented 'rec{k}'"))
                    continue
                d2 = dict(d)
                d2["params"] = dict(d["params"], **fflags)
                d2["restr"] = "anchored" if anch else None
                check_single(ad, expect_single(d2, g2, f"rec{k}"), f"{spec.replace(path, 'FILE')} [rec{k}: {d['text']};{d['ptxt']}]", problems)
    except Exception as e:
        problems.append(("rejected", f"valid specification {str(spec).replace(str(path), 'FILE')!r} (file content {filetext!r}) raised {type(e).__name__}: {e}"))
    finally:
        if old_cwd is not None:
            os.chdir(old_cwd)
        if path:
            try:
                os.unlink(path)
            except OSError:
                pass
        if relative_to is not None:
            shutil.rmtree(relative_to, ignore_errors=True)
    if relative_to is not None:
        path = shown
    key = (str(spec).replace(str(path), "FILE"), filetext, str(glob), typ)
    ctx.case(key)
    case = dict(spec=str(spec).replace(str(path), "FILE"), filetext=filetext, glob=glob, typ=typ)
    for kind, text in problems:
        ctx.violation(kind, f"{text}; global={glob} type={typ}", case, klass=kind)
    if not problems:
        ctx.sample(dict(type=typ, spec=key[0], file=filetext, glob=glob), limit=6)


INVALID = [
    # (argv fragment, description)
    (["-b", "^ACGTACGT"], "anywhere adapter with anchoring"),
    (["-b", "ACGTACGTX"], "anywhere adapter with non-internal restriction"),
    (["-b", "ACGT...TTTT"], "linked anywhere adapter"),
    (["-a", "ACGTACGT$;o=3"], "min_overlap for an anchored adapter"),
    (["-g", "^ACGTACGT;min_overlap=3"], "min_overlap for an anchored adapter"),
    (["-a", "^ACGTACGT;o=3...TTTTGGGG"], "min_overlap for the anchored 5' part of a linked adapter"),
    (["-g", "^ACGTACGT;min_overlap=3...TTTTGGGG"], "min_overlap for the anchored 5' part of a linked adapter (-g)"),
    (["-a", "ACGTACGT...TTTTGGGG$;o=3"], "min_overlap for the anchored 3' part of a linked adapter"),
    (["-g", "^ACGTACGTX"], "two placement restrictions"),
    (["-a", "XACGTACGT$"], "two placement restrictions"),
    (["-g", "ACGTACGT$"], "3' restriction on a 5' adapter"),
    (["-a", "^ACGTACGT"], "5' restriction on a 3' adapter"),
    (["-a", "ACGTACGT;rightmost"], "rightmost on a 3' adapter"),
    (["-g", "^ACGTACGT;rightmost"], "rightmost on an anchored adapter"),
    (["-a", "ACGTACGT;required"], "required on a non-linked adapter"),
    (["-a", "ACGTACGT;optional"], "optional on a non-linked adapter"),
    (["-a", "ACGT;required;optional...TTTT"], "required and optional together"),
    (["-a", "ACGTACGT;indels;noindels"], "indels and noindels together"),
    (["-a", "ACGTACGT;foo=3"], "unknown parameter"),
    (["-a", "ACGTACGT;e="], "parameter without value"),
    (["-a", "ACGTACGT;e=0.1;max_error_rate=0.2"], "parameter given twice"),
    (["-g", "...ACGTACGT"], "-g with leading ellipsis"),
    (["-a", "ACGT{"], "unterminated brace"),
    (["-a", "{3}ACGT"], "brace without character"),
    (["-a", "ACGT{3"], "unterminated brace"),
    (["-a", "ACGTZZACGT"], "character that is not an IUPAC code"),
    (["-a", ""], "empty adapter"),
    (["-a", "ACGT", "-A", "ACGT", "-A", "TTTT", "--pair-adapters", "-p", "o2.fq"], "--pair-adapters with unequal adapter numbers"),
    (["-a", "ACGT", "--action=retain", "-n", "2"], "retain with --times 2"),
    (["-a", "ACGT", "--action=crop", "-n", "2"], "crop with --times 2"),
    (["-a", "ACGT", "-O", "0"], "overlap below 1"),
]


def cli_invalid(ctx):
    d = os.path.join(ctx.scratch, "inv")
    os.makedirs(d, exist_ok=True)
    with open(os.path.join(d, "in.fq"), "w") as f:
        f.write("@r1\nACGTACGTACGT\n+\nIIIIIIIIIIII\n")
    for i, (frag, desc) in enumerate(INVALID):
        paired = "-p" in frag
        argv = list(frag) + ["-o", "o.fq", "in.fq"] + (["in.fq"] if paired else [])
        run = climon.run(d, argv, tag=f"inv{i}", trace=False, timeout=60)
        ctx.case(("invalid", str(frag)))
        ctx.count("invalid_combinations_tried")
        case = dict(invalid=True, argv=argv)
        if run.rc != 2 or not run.err.strip():
            ctx.violation("invalid-accepted", f"documented invalid combination ({desc}) {frag}: exit status {run.rc}, stderr {run.err[-200:]!r}", case, klass=desc)
    # valid counterparts must be accepted (guards the oracle against 'everything is rejected')
    for i, frag in enumerate([["-a", "ACGTACGT$"], ["-g", "^ACGTACGT"], ["-a", "ACGT;required...TTTT"], ["-g", "ACGTACGT;rightmost"],
                              ["-a", "ACGT{3}"], ["-b", "ACGTACGT"]]):
        run = climon.run(d, list(frag) + ["-o", "o.fq", "in.fq"], tag=f"val{i}", trace=False, timeout=60)
        ctx.case(("valid", str(frag)))
        if run.rc != 0:
            ctx.violation("valid-rejected", f"documented valid specification {frag}: exit status {run.rc}, {run.err[-200:]!r}", dict(invalid=True, argv=frag))
    shutil.rmtree(d, ignore_errors=True)


def literal_n_case(ctx, rng, fixed=None):
    """-N: an N in the adapter is an ordinary character, it counts towards the length that the error rate is multiplied
    with; where that makes the difference between no and one allowed error, an occurrence with one base missing is found
    (indels are the default) - for anchored adapters like for all others."""
    from cutadapt.parser import make_adapters_from_specifications
    import cutadapt.adapters as A

    L, n_n = rng.choice([(10, 2), (10, 1), (12, 3), (20, 5), (7, 1)])
    rate = {10: 0.1, 12: 0.09, 20: 0.06, 7: 0.15}[L]
    seq = list("".join(rng.choice("ACGT") for _ in range(L)))
    for p in rng.sample(range(L), n_n):
        seq[p] = "N"
    seq = "".join(seq)
    kind = rng.choice(["^", "$", "", "X"])
    if fixed:
        seq, kind, rate, L = fixed["seq"], fixed["kind"], fixed["rate"], len(fixed["seq"])
    typ = "front" if kind == "^" else rng.choice(["back"]) if kind != "" else "back"
    spec = {"^": "^" + seq, "$": seq + "$", "": seq, "X": seq + "X"}[kind]
    cls = {"^": A.PrefixAdapter, "$": A.SuffixAdapter, "": A.BackAdapter, "X": A.NonInternalBackAdapter}[kind]
    sp = dict(max_errors=rate, min_overlap=3, read_wildcards=False, adapter_wildcards=False, indels=True)
    problems = []
    case = dict(spec=spec, filetext=None, glob=dict(e=rate, o=3, indels=True, aw=False, rw=False), typ=typ, literal_n=dict(seq=seq, kind=kind, rate=rate))
    ctx.case(("literal-n", spec, rate))
    ctx.count("literal_n_cases")
    try:
        ads = make_adapters_from_specifications([(typ, spec)], sp)
    except Exception as e:
        ctx.violation("rejected", f"valid specification {spec!r} under -N raised {type(e).__name__}: {e}", case, klass="rejected")
        return
    ex = dict(cls=cls, seq=seq, rate=rate, o=L if kind in ("^", "$") else 3, indels=True, fa=False, aw=False, rw=False)
    if type(ads[0]) is not cls:
        problems.append(("class", f"{spec}: built {type(ads[0]).__name__}, documented {cls.__name__}"))
    else:
        probe_indels(ads[0], ex, problems, spec + " under -N")
    for kind_, text in problems:
        ctx.violation(kind_, f"{text}; global={case['glob']} type={typ}", case, klass=kind_)


def cwd_entry_case(ctx, rng):
    """What a specification means does not depend on what happens to lie in the working directory: a file or directory
    called like the adapter sequence (GATTACA, TAG, DATA, N ...) changes nothing."""
    from cutadapt.parser import make_adapters_from_specifications
    import cutadapt.adapters as A

    seq = rng.choice(["GATTACA", "TAG", "DATA", "N" * 0 + "ACGT", "GATC", "".join(rng.choice("ACGT") for _ in range(rng.randint(3, 10)))])
    typ = rng.choice(["back", "front", "anywhere"])
    sub = os.path.join(ctx.scratch, f"cwdent{rng.getrandbits(40)}")
    os.makedirs(sub)
    if rng.random() < 0.5:
        open(os.path.join(sub, seq), "w").write(">x\nACGT\n")
    else:
        os.makedirs(os.path.join(sub, seq))
    sp = dict(max_errors=0.1, min_overlap=3, read_wildcards=False, adapter_wildcards=True, indels=True)
    case = dict(spec=seq, filetext=None, glob=dict(e=0.1, o=3, indels=True, aw=True, rw=False), typ=typ)
    ctx.case(("cwd-entry", seq, typ))
    ctx.count("specifications_named_like_an_entry_of_the_working_directory")
    old_cwd = os.getcwd()
    try:
        os.chdir(sub)
        ads = make_adapters_from_specifications([(typ, seq)], sp)
        want = {"back": A.BackAdapter, "front": A.FrontAdapter, "anywhere": A.AnywhereAdapter}[typ]
        if len(ads) != 1 or type(ads[0]) is not want or ads[0].sequence != seq:
            ctx.violation("class", f"{seq!r} as {typ} with an entry of that name in the working directory: built {ads}", case, klass="cwd")
    except Exception as e:
        ctx.violation("rejected", f"valid specification {seq!r} as {typ} raised {type(e).__name__}: {e} (an entry called {seq} lies in the working directory)", case, klass="cwd")
    finally:
        os.chdir(old_cwd)
        shutil.rmtree(sub, ignore_errors=True)


def run_shard(ctx):
    rng = ctx.rng("c18")
    n = ctx.scale(2500, 80000)
    for i in range(n):
        if ctx.out_of_time():
            ctx.count("stopped_on_time_budget")
            break
        gen_and_check(ctx, rng)
        if i % 12 == 0:
            gen_invalid(ctx, rng)
        if i % 25 == 0:
            literal_n_case(ctx, rng)
        if i % 60 == 0:
            cwd_entry_case(ctx, rng)
    for k in range(ctx.scale(12, 200)):
        cli_attributes_case(ctx, ctx.shard * 100000 + k)
    if ctx.shard == 0:
        cli_invalid(ctx)


def replay(ctx, case):
    if case.get("invalid"):
        cli_invalid(ctx)
        return
    from cutadapt.parser import make_adapters_from_specifications

    if case.get("cli_attr"):
        ctx.shard = case["k"] // 100000
        cli_attributes_case(ctx, case["k"])
        return
    if case.get("invalid_api"):
        from cutadapt.adapters import InvalidCharacter
        ctx.case(("replay", case["spec"]))
        try:
            ads = make_adapters_from_specifications([(case["typ"], case["spec"])], case["sp"])
            ctx.violation("invalid-accepted", f"{case['spec']!r} accepted: {ads}", case)
        except (KeyError, ValueError, InvalidCharacter) as e:
            print("rejected:", e)
        except Exception as e:
            ctx.violation("invalid-crashes", f"{type(e).__name__}: {e}", case)
        return
    if case.get("literal_n"):
        import random
        literal_n_case(ctx, random.Random(0), fixed=case["literal_n"])
        return
    glob = case["glob"]
    sp = dict(max_errors=glob["e"], min_overlap=glob["o"], read_wildcards=glob["rw"], adapter_wildcards=glob["aw"], indels=glob["indels"])
    spec = case["spec"]
    path = None
    if case.get("filetext") is not None:
        path = os.path.join(ctx.scratch, "replay.fa")
        with open(path, "w") as f:
            f.write(case["filetext"])
        spec = spec.replace("FILE", path)
    try:
        ads = make_adapters_from_specifications([(case["typ"], spec)], sp)
        print("built:", ads)
        ctx.case(("replay", spec))
    except Exception as e:
        ctx.case(("replay", spec))
        ctx.violation("rejected", f"{type(e).__name__}: {e}", case)
