"""C02 - admissible adapter occurrences are found; exact copies never survive."""
from .. import alnmon as M

ID = "C02"
LEVEL = "exploration"
ENGINES = ['alnmon', 'climon']
TECHNIQUE = 'reference enumeration of admissible occurrences vs. the real match_to() (completeness oracle)'
LEVEL_TEXT = 'For each generated (configuration, read) pair an independent enumeration/DP decides whether an admissible occurrence exists; then the real match_to() must report a match, and reported matches must respect the leftmost/rightmost exact-copy clauses. Held = no miss among the cases where the premise was true (counted as non-trivial).'
LEVEL_TEXT += ' Several anchored adapters looked up through the index at the command line: a read whose anchored end is a copy of one adapter with as many N / non-base characters as that adapter tolerates (also adapters with a literal N under -N) must be trimmed unless a second adapter admits it too.'
LEVEL_NOTE = 'Trusted base: verif/refmodel.py admissible_ungapped / exists_gapped_no_adapter_start_skip / exact_full_copies. The with-indels clause is applied only to the adapter types the statement names.'
VARIANTS = {"quick": ["plain"], "thorough": ["plain"]}
BUDGET_S = {"quick": 120, "thorough": 2400}
FLOORS = {"quick": 8000, "thorough": 300000}
EXHAUSTIVE = {"thorough": "all adapters over {A,C} of length<=4 x 8 types x rates {0,.25,.34,.5} x overlaps x indels "
                          "x all reads over {A,C} of length<=6 (in addition to the random workload)"}
RULE = ("Same seeded workload as C01 (planted occurrences make the premise true often). For every call of the real "
        "match_to() an independent enumeration decides whether an admissible occurrence exists: every ungapped "
        "placement the type admits (indels off), a reference DP over admissible end cells for the types that cannot "
        "skip the adapter start (indels on), error-free occurrences for all types; then a match must be reported. "
        "Reported matches are also checked against the leftmost/rightmost exact-copy clauses. A miss is re-run with "
        "the prefilter replaced by the always-true finder: found then => the C07 prefilter defect (shared known "
        "finding), still missed => C02 violation. Non-trivial = the premise held (admissible occurrence exists or an "
        "exact full copy is present); distinct by (configuration, read).")
ASSUMPTIONS = [
    "refmodel.admissible_ungapped / exists_gapped_no_adapter_start_skip enumerate the documented admissible occurrences",
    "the with-indels clause is applied only to the adapter types named in the statement",
    "adapters with an effective error rate >= 1 are outside the stated domain and skipped",
]


def one(ctx, cfg, ad, read):
    try:
        mt = ad.match_to(read)
    except Exception as e:
        ctx.case(("exc", str(cfg), read))
        ctx.violation("exception", f"match_to raised {type(e).__name__}: {e}", M.case_dict(cfg, read))
        return
    key = (cfg["type"], cfg["seq"], cfg["max_errors"], cfg["min_overlap"], cfg["aw"], cfg["rw"], cfg["indels"],
           cfg.get("fa"), read)
    occ = M.admissible_occurrence(cfg, ad, read)
    nontrivial = occ is not None
    if occ is not None:
        ctx.count("premise:" + occ[0])
        ctx.count("premise_type:" + cfg["type"])
        if mt is None:
            m0 = M.match_without_prefilter(ad, read)
            if m0 is not None:
                ctx.violation(
                    "prefilter-lost-match",
                    f"admissible occurrence {occ} exists, alignment alone finds {M.match_tuple(m0)}, "
                    f"but match_to() returns None; adapter={ad!r} read={read!r}",
                    M.case_dict(cfg, read), facts=M.prefilter_facts(cfg, ad, read, m0), klass=cfg["type"])
            else:
                ctx.violation(
                    "missed-occurrence",
                    f"{occ[0]} admissible occurrence {occ[1]} (a0,a1,r0,r1,cost | i,j,cost) but no match reported; "
                    f"adapter={ad!r} read={read!r}",
                    M.case_dict(cfg, read), facts=dict(type=cfg["type"], clause=occ[0], indels=cfg["indels"]),
                    klass=cfg["type"] + occ[0])
        else:
            ctx.sample(dict(cfg=cfg, read=read, premise=occ, match=M.match_tuple(mt)))
    if mt is not None:
        problems, had_copy = M.check_exact_copy_clauses(cfg, ad, read, mt)
        if had_copy:
            nontrivial = True
            ctx.count("exact_copy_clause_checked")
        for clause, text in problems:
            ctx.violation(clause, f"{text}; adapter={ad!r} read={read!r}", M.case_dict(cfg, read),
                          facts=dict(type=cfg["type"]), klass=cfg["type"])
    ctx.case(key if nontrivial else None)


def run_shard(ctx):
    n_cfg = ctx.scale(3000, 60000)
    rng = ctx.rng("c02")
    for i in range(n_cfg):
        if ctx.out_of_time():
            ctx.count("stopped_on_time_budget")
            break
        cfg = M.gen_config(rng, long_adapters=True if ctx.tier == "thorough" else 0.12)
        ad = M.build(cfg)
        if ad is None:
            ctx.count("config_rejected_or_out_of_domain")
            continue
        ap = M.attr_problems(cfg, ad)
        if ap:
            ctx.case(("attrs", str(cfg)))
            ctx.violation("adapter-attributes", "; ".join(ap) + f"; adapter={ad!r}", M.case_dict(cfg, None), klass=cfg["type"])
        for _ in range(8):
            one(ctx, cfg, ad, M.gen_read(rng, cfg, ad.sequence))
    for k in range(ctx.scale(8, 150)):
        cli_case(ctx, ctx.shard * 100000 + k)
    for k in range(ctx.scale(8, 150)):
        cli_index_case(ctx, ctx.shard * 100000 + 50000 + k)
    if ctx.tier == "thorough":
        reads = list(M.exhaustive_reads(6))
        for cfg in M.exhaustive_configs(ctx.shard, ctx.nshards):
            ad = M.build(cfg)
            if ad is None:
                continue
            ctx.count("exhaustive_configs")
            for read in reads:
                one(ctx, cfg, ad, read)


def cli_case(ctx, k):
    """At the command line: after -a ADAPTER no exact copy of the adapter remains; an error-free anchored adapter is removed exactly."""
    import os
    import shutil
    from .. import climon, fastx, gen_cli as G, refmodel as R

    rng = ctx.rng("c02cli", k)
    ad = G.rnd(rng, rng.randint(5, 16))
    mode = rng.choice(["back", "back", "prefix", "suffix"])
    d = os.path.join(ctx.scratch, f"cli{k}")
    os.makedirs(d, exist_ok=True)
    overlap = rng.choice([1, 3, 3, 5])
    rate = float(rng.choice(["0", "0.1", "0.2"]))
    musts = {}
    try:
        recs = []
        for i in range(40):
            left, right = G.rnd(rng, rng.randint(0, 25)), G.rnd(rng, rng.randint(0, 25))
            r = rng.random()
            if mode == "prefix":
                s = ad + right if r < 0.7 else left + right
            elif mode == "suffix":
                s = left + ad if r < 0.7 else left + right
            else:
                s = left + ad + right if r < 0.5 else left + ad + G.rnd(rng, 3) + ad + right if r < 0.7 else left + right
            if mode in ("prefix", "suffix") and rng.random() < 0.15:
                s = ad     # nothing but the adapter
            must_trim = None
            if mode == "back" and rng.random() < 0.3:
                if rng.random() < 0.6:
                    # error-free partial occurrence at the 3' end, at least the minimum overlap long
                    p = rng.randint(min(overlap, len(ad)), len(ad))
                    s = left + ad[:p]
                    must_trim = f"ends with the first {p} adapter bases (minimum overlap {overlap})"
                elif int(rate * len(ad)) >= 1:
                    # a full copy with one substitution: within the tolerance
                    j = rng.randrange(len(ad))
                    s = left + ad[:j] + rng.choice([c for c in "ACGT" if c != ad[j]]) + ad[j + 1:] + right
                    must_trim = f"contains a full copy with one substitution (tolerance {rate} x {len(ad)})"
            musts[f"r{i}"] = must_trim
            recs.append((f"r{i}", s, "I" * len(s)))
        inputs = climon.write_inputs(d, recs)
        spec = dict(back=ad, prefix="^" + ad, suffix=ad + "$")[mode]
        flag = "-g" if mode == "prefix" else "-a"
        argv = [flag, spec]
        if mode in ("prefix", "suffix") and rng.random() < 0.6:
            # further anchored adapters of the same kind (an index is built then); all shorter than the adapter under
            # test, so that none of them can match better than its error-free full copy
            for j in range(rng.randint(1, 2)):
                dec = G.rnd(rng, rng.randint(3, len(ad) - 1))
                pair = [flag, ("^" + dec) if mode == "prefix" else (dec + "$")]
                argv = (argv + pair) if rng.random() < 0.5 else (pair + argv)
            ctx.count("cli_runs_with_several_anchored_adapters")
        other_kind = []
        if mode in ("prefix", "suffix") and rng.random() < 0.35:
            # anchored adapters for the *other* end as company (grouping of anchored adapters must not lose the one under test)
            for j in range(rng.randint(2, 3)):
                dec = G.rnd(rng, rng.randint(18, 24))
                other_kind.append(dec)
                argv_pair = ["-a", dec + "$"] if mode == "prefix" else ["-g", "^" + dec]
                argv = (argv + argv_pair) if rng.random() < 0.5 else (argv_pair + argv)
            ctx.count("cli_runs_with_anchored_adapters_for_the_other_end")
        argv += ["-e", repr(rate), "-O", str(overlap), "-o", "out.fq"] + (["--no-indels"] if rng.random() < 0.3 else [])
        with_file = rng.random() < 0.3
        if with_file:
            # an adapter file with its own parameters given first: they hold for the file only
            with open(os.path.join(d, "other.fasta"), "w") as f:
                f.write(">o1\n" + G.rnd(rng, 12) + "\n>o2\n" + G.rnd(rng, 15) + "\n")
            argv = [rng.choice(["-a", "-g"]), "file:other.fasta;" + rng.choice(["min_overlap=11", "e=0", "o=12;e=0;noindels"])] + argv
            ctx.count("cli_runs_after_parameterised_file")
        run = climon.run(d, argv + inputs, trace=False)
        ctx.count("cli_runs")
        if run.rc != 0:
            ctx.count("cli_runs_failed")
            return
        case = climon.case_record(argv + inputs, d, inputs)
        case["cli_k"] = k
        fo = run.records("out.fq")
        outs = {fastx.rid(r[0]): r[1] for r in fo[1]} if fo and fo[0] != "error" else {}
        for name, s, q in recs:
            o = outs.get(name)
            has = ad in s
            ctx.case(("cli", mode, ad, s) if has else None)
            if o is None:
                ctx.violation("cli-read-missing", f"read {name} not written; argv={argv}", case)
                continue
            if other_kind:
                # a chance occurrence of one of the adapters for the other end could win over the exact copy: not judged
                kk = int(rate * 24) + 1
                end_hit = False
                for dec in other_kind:
                    for L_ in range(max(1, len(dec) - kk), len(dec) + kk + 1):
                        piece = s[-L_:] if mode == "prefix" else s[:L_]
                        if len(piece) == L_ and R.edit_distance(dec, piece, lambda a, b: a == b) <= kk:
                            end_hit = True
                if end_hit:
                    ctx.count("cli_reads_skipped_other_end_adapter_occurs")
                    continue
            if musts.get(name) and len(o) >= len(s):
                ctx.violation("missed-occurrence", f"read {s!r} {musts[name]} of -a {ad} but nothing was removed; argv={argv}", case, klass="cli-admissible")
            if with_file:
                # one of the file's adapters may legitimately be the best match of the single round: only the
                # "something admissible occurs, so something is removed" clause above is judged in these runs
                continue
            if mode == "back" and ad in o:
                ctx.violation("exact-copy-survives", f"exact copy of {ad} remains in the output {o!r} of read {s!r}; argv={argv}", case, klass="cli")
            if mode == "prefix" and s.startswith(ad) and o != s[len(ad):]:
                ctx.violation("anchored-exact", f"read {s!r} starts with the anchored adapter {ad}, output {o!r}; argv={argv}", case, klass="cli")
            if mode == "suffix" and s.endswith(ad) and o != s[: len(s) - len(ad)]:
                ctx.violation("anchored-exact", f"read {s!r} ends with the anchored adapter {ad}, output {o!r}; argv={argv}", case, klass="cli")
    finally:
        shutil.rmtree(d, ignore_errors=True)


def cli_index_case(ctx, k):
    """Several anchored adapters of one kind (the default run looks them up in an index): a read whose anchored end is a
    copy of one adapter with as many characters replaced by N (or another non-base) as that adapter tolerates contains
    an admissible occurrence, so something has to be removed - whatever the other adapters and their tolerances are."""
    import os
    import shutil
    from .. import climon, fastx, gen_cli as G

    rng = ctx.rng("c02idx", k)
    prefix = rng.random() < 0.5
    literal_n = rng.random() < 0.2           # -N: the adapter's own N is an ordinary character
    L = rng.randint(8, 12)
    equal = rng.random() < 0.6
    center = G.rnd(rng, L)
    ads = []
    for i in range(rng.randint(2, 5)):
        if i and rng.random() < 0.6:
            seq = G.mutate_sub(rng, center, rng.choice([1, 2, 2, 3]))
        else:
            seq = G.rnd(rng, L if equal else rng.randint(8, 12))
        if literal_n and rng.random() < 0.6:
            p = rng.randrange(len(seq))
            seq = seq[:p] + "N" + seq[p + 1:]
        rate = rng.choice([0, 0.1, 0.13, 0.2, 0.25])
        if seq not in [a[0] for a in ads]:
            ads.append((seq, rate))
    if len(ads) < 2:
        return
    no_indels = rng.random() < 0.5
    recs = []
    musts = {}
    ambiguous_skipped = 0
    for i in range(40):
        seq, rate = rng.choice(ads)
        kk = int(rate * len(seq))
        j = rng.randint(0, kk) if rng.random() < 0.85 else kk + 1
        sl = list(seq)
        free = [p for p in range(len(sl)) if sl[p] != "N"]
        for p in rng.sample(free, min(j, len(free))):
            sl[p] = rng.choice("NNNN.R")
        rest = G.rnd(rng, rng.randint(0, 12))
        s = "".join(sl) + rest if prefix else rest + "".join(sl)
        must = (seq, rate, j) if j <= kk else None
        if must is not None:
            # reads that a second adapter also admits are, by design, left alone by the index when the two are equally
            # good ("ambiguous", announced in the log): judged only when no other adapter occurs within its tolerance
            from .c08 import occurs
            for seq2, rate2 in ads:
                if seq2 != seq and occurs(seq2, rate2, not no_indels, s, prefix) is not None:
                    must = None
                    ambiguous_skipped += 1
                    break
        musts[f"r{i}"] = must
        recs.append((f"r{i}", s, "I" * len(s)))
    d = os.path.join(ctx.scratch, f"cidx{k}")
    os.makedirs(d, exist_ok=True)
    try:
        inputs = climon.write_inputs(d, recs)
        argv = []
        for seq, rate in ads:
            argv += ["-g", f"^{seq};e={rate}"] if prefix else ["-a", f"{seq}$;e={rate}"]
        argv += (["--no-indels"] if no_indels else []) + (["-N"] if literal_n else []) + ["-o", "out.fq"]
        run = climon.run(d, argv + inputs, trace=False)
        ctx.count("cli_index_runs")
        ctx.count("cli_index_reads_skipped_second_adapter_admits", ambiguous_skipped)
        if literal_n:
            ctx.count("cli_index_runs_with_literal_n")
        if run.rc != 0:
            ctx.count("cli_runs_failed")
            return
        case = climon.case_record(argv + inputs, d, inputs)
        case["cli_k"] = k
        case["kind"] = "index"
        fo = run.records("out.fq")
        outs = {fastx.rid(r[0]): r[1] for r in fo[1]} if fo and fo[0] != "error" else {}
        for name, s, q in recs:
            must = musts[name]
            ctx.case(("cli-index", str(ads), s, no_indels) if must else None)
            o = outs.get(name)
            if o is None:
                ctx.violation("cli-read-missing", f"read {name} not written; argv={argv}", case)
            elif must and len(o) >= len(s):
                ctx.count("cli_index_reads_with_non_base_characters", 1 if must[2] else 0)
                ctx.violation("missed-occurrence", f"the anchored end of read {s!r} is the adapter {must[0]} with {must[2]} characters replaced by N or another "
                              f"non-base (tolerance {must[1]} x {len(must[0])}) but nothing was removed; argv={argv}", case, klass="cli-index")
            elif must and must[2]:
                ctx.count("cli_index_reads_with_non_base_characters")
    finally:
        shutil.rmtree(d, ignore_errors=True)


def replay(ctx, case):
    if case.get("kind") == "index":
        ctx.shard = case["cli_k"] // 100000
        cli_index_case(ctx, case["cli_k"])
        return
    if case.get("cli"):
        ctx.shard = case["cli_k"] // 100000
        cli_case(ctx, case["cli_k"])
        return
    cfg = {k: v for k, v in case.items() if k != "read"}
    ad = M.build(cfg)
    if ad is None:
        ctx.mark_inconclusive("configuration rejected")
        return
    ap = M.attr_problems(cfg, ad)
    if ap:
        ctx.case(("attrs", str(cfg)))
        ctx.violation("adapter-attributes", "; ".join(ap), M.case_dict(cfg, None))
    if case.get("read") is None:
        return
    one(ctx, cfg, ad, case["read"])
