"""C02 - admissible adapter occurrences are found; exact copies never survive."""
from .. import alnmon as M

ID = "C02"
LEVEL = "exploration"
ENGINES = ['alnmon']
TECHNIQUE = 'reference enumeration of admissible occurrences vs. the real match_to() (completeness oracle)'
LEVEL_TEXT = 'For each generated (configuration, read) pair an independent enumeration/DP decides whether an admissible occurrence exists; then the real match_to() must report a match, and reported matches must respect the leftmost/rightmost exact-copy clauses. Held = no miss among the cases where the premise was true (counted as non-trivial).'
LEVEL_NOTE = 'Trusted base: verif/refmodel.py admissible_ungapped / exists_gapped_no_adapter_start_skip / exact_full_copies. The with-indels clause is applied only to the adapter types the statement names.'
VARIANTS = {"quick": ["plain"], "thorough": ["plain"]}
BUDGET_S = {"quick": 120, "thorough": 2400}
FLOORS = {"quick": 8000, "thorough": 300000}
EXHAUSTIVE = {"thorough": "all adapters over {A,C} of length<=4 x 8 types x rates {0,.25,.34,.5} x overlaps x indels "
                          "x all reads over {A,C} of length<=6 (in addition to the random workload)"}
RULE = ("Same seeded workload as C01 (planted occurrences make the premise true often). For every call of the real "
        "match_to() an independent enumeration decides whether an admissible occurrence exists: every ungapped "
        "placement the type admits (indels off), a reference DP over admissible end cells for the types that cannot "
        "skip the adapter start (indels on), error-free occurrences for all types; then a match must be reported. "
        "Reported matches are also checked against the leftmost/rightmost exact-copy clauses. A miss is re-run with "
        "the prefilter replaced by the always-true finder: found then => the C07 prefilter defect (shared known "
        "finding), still missed => C02 violation. Non-trivial = the premise held (admissible occurrence exists or an "
        "exact full copy is present); distinct by (configuration, read).")
ASSUMPTIONS = [
    "refmodel.admissible_ungapped / exists_gapped_no_adapter_start_skip enumerate the documented admissible occurrences",
    "the with-indels clause is applied only to the adapter types named in the statement",
    "adapters with an effective error rate >= 1 are outside the stated domain and skipped",
]


def one(ctx, cfg, ad, read):
    try:
        mt = ad.match_to(read)
    except Exception as e:
        ctx.case(("exc", str(cfg), read))
        ctx.violation("exception", f"match_to raised {type(e).__name__}: {e}", M.case_dict(cfg, read))
        return
    key = (cfg["type"], cfg["seq"], cfg["max_errors"], cfg["min_overlap"], cfg["aw"], cfg["rw"], cfg["indels"],
           cfg.get("fa"), read)
    occ = M.admissible_occurrence(cfg, ad, read)
    nontrivial = occ is not None
    if occ is not None:
        ctx.count("premise:" + occ[0])
        ctx.count("premise_type:" + cfg["type"])
        if mt is None:
            m0 = M.match_without_prefilter(ad, read)
            if m0 is not None:
                ctx.violation(
                    "prefilter-lost-match",
                    f"admissible occurrence {occ} exists, alignment alone finds {M.match_tuple(m0)}, "
                    f"but match_to() returns None; adapter={ad!r} read={read!r}",
                    M.case_dict(cfg, read), facts=M.prefilter_facts(cfg, ad, read, m0), klass=cfg["type"])
            else:
                ctx.violation(
                    "missed-occurrence",
                    f"{occ[0]} admissible occurrence {occ[1]} (a0,a1,r0,r1,cost | i,j,cost) but no match reported; "
                    f"adapter={ad!r} read={read!r}",
                    M.case_dict(cfg, read), facts=dict(type=cfg["type"], clause=occ[0], indels=cfg["indels"]),
                    klass=cfg["type"] + occ[0])
        else:
            ctx.sample(dict(cfg=cfg, read=read, premise=occ, match=M.match_tuple(mt)))
    if mt is not None:
        problems, had_copy = M.check_exact_copy_clauses(cfg, ad, read, mt)
        if had_copy:
            nontrivial = True
            ctx.count("exact_copy_clause_checked")
        for clause, text in problems:
            ctx.violation(clause, f"{text}; adapter={ad!r} read={read!r}", M.case_dict(cfg, read),
                          facts=dict(type=cfg["type"]), klass=cfg["type"])
    ctx.case(key if nontrivial else None)


def run_shard(ctx):
    n_cfg = ctx.scale(3000, 60000)
    rng = ctx.rng("c02")
    for i in range(n_cfg):
        if ctx.out_of_time():
            ctx.count("stopped_on_time_budget")
            break
        cfg = M.gen_config(rng, long_adapters=True if ctx.tier == "thorough" else 0.12)
        ad = M.build(cfg)
        if ad is None:
            ctx.count("config_rejected_or_out_of_domain")
            continue
        for _ in range(8):
            one(ctx, cfg, ad, M.gen_read(rng, cfg, ad.sequence))
    if ctx.tier == "thorough":
        reads = list(M.exhaustive_reads(6))
        for cfg in M.exhaustive_configs(ctx.shard, ctx.nshards):
            ad = M.build(cfg)
            if ad is None:
                continue
            ctx.count("exhaustive_configs")
            for read in reads:
                one(ctx, cfg, ad, read)


def replay(ctx, case):
    cfg = {k: v for k, v in case.items() if k != "read"}
    ad = M.build(cfg)
    if ad is None:
        ctx.mark_inconclusive("configuration rejected")
        return
    one(ctx, cfg, ad, case["read"])
