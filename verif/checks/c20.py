"""C20 - per-adapter statistics describe exactly the matches that were applied."""
import collections
import os
import shutil

from .. import climon, fastx, gen_cli as G, refmodel as R

ID = "C20"
LEVEL = "exploration"
ENGINES = ["climon"]
TECHNIQUE = "offline tally checker: matches actually applied to each read (hooked adapter-stage events) vs adapters_read1/adapters_read2 of the --json report of the same real run; allowed-error ranges vs int(L*rate)"
LEVEL_TEXT = ("Real runs over all adapter kinds (regular, anchored, non-internal, anywhere, linked, rightmost), --times, every action, "
              "--revcomp, --pair-adapters, single/paired, 1-3 cores. The hooked adapter stage yields every match applied to every read "
              "(adapter, kind, coordinates, errors, searched string, orientation), R1 and R2 separately; an independent tally per adapter - "
              "number of matches, histogram removed length x errors, base adjacent to 3' matches, 5'/3' split for anywhere and linked "
              "adapters, matches on the reverse complement - must equal the JSON report, and 'error_lengths' read as 'allowed errors for match "
              "length L' must equal int(L x rate) for every L up to the number of non-N adapter bases.")
LEVEL_TEXT += ' Adapters for R2 only (with and without --revcomp); the per-adapter header lines of the full text report are compared with the tally.'
LEVEL_TEXT += ' Adapters whose length times tolerance rounds down in double precision (49 x 1/49, 100 x 0.29, ...).'
LEVEL_TEXT += ' Two adapters carrying one name keep separate statistics.'
LEVEL_NOTE = ("Trusted base: the hooked match list (what was applied), the tally rules written from the guide/reference (removed length = rstop "
              "for 5' matches, len - rstart for 3' matches; adjacent base A/C/G/T else ''); on_reverse_complement must be the tally whenever --revcomp is on, null otherwise.")
VARIANTS = {"quick": ["plain"], "thorough": ["plain"]}
BUDGET_S = {"quick": 150, "thorough": 3000}
FLOORS = {"quick": 1500, "thorough": 50000}
RULE = ("Seeded random adapter sets x inputs of 20-50 reads with planted occurrences (both orientations when --revcomp). Non-trivial = an "
        "adapter entry of the report with at least one match (its tally had something to count); distinct by (argv, adapter name, tally).")
ASSUMPTIONS = ["adapter names are unique per side", "if the adapter-stage hook is missing the check is inconclusive"]

RATES = ["0.1", "0.2", "0.34", "0.12", "0.25", "0.3", "0.5", "0"]


def gen_case(rng):
    paired = rng.random() < 0.35
    kinds = ["a", "a", "g", "b", "b", "a$", "g^", "aX", "gX", "linked", "linked", "rightmost"]
    ads1 = [G.gen_adapter(rng, i, kinds=kinds, maxlen=16) for i in range(rng.randint(1, 3))]
    ads2 = []
    pair_adapters = False
    if paired:
        if rng.random() < 0.3:
            simple = ["a", "g", "a$", "g^"]
            ads1 = [G.gen_adapter(rng, i, kinds=simple) for i in range(len(ads1))]
            ads2 = [G.gen_adapter(rng, i, upper=True, prefix="bd", kinds=simple) for i in range(len(ads1))]
            pair_adapters = True
            if rng.random() < 0.4:
                # two ranks share the adapter on one side (combinatorial dual indexing): every rank keeps its own statistics
                if len(ads1) < 2:
                    ads1.append(G.gen_adapter(rng, 1, kinds=simple))
                    ads2.append(G.gen_adapter(rng, 1, upper=True, prefix="bd", kinds=simple))
                side = ads1 if rng.random() < 0.6 else ads2
                a0, a1 = side[0], side[1]
                a1["kind"], a1["parts"], a1["flag"], a1["spec"] = a0["kind"], list(a0["parts"]), a0["flag"], a0["spec"]
                a1["argv"] = [a1["flag"], f"{a1['name']}={a1['spec']}"]
        elif rng.random() < 0.7:
            ads2 = [G.gen_adapter(rng, i, upper=True, prefix="bd", kinds=kinds) for i in range(rng.randint(1, 2))]
            if rng.random() < 0.25:
                ads1 = []          # adapters for R2 only
    if not pair_adapters and ads1 and rng.random() < 0.07:
        # lengths and tolerances whose product is an integer on paper and just below it in double precision
        L, K = rng.choice([(49, 1), (49, 2), (47, 3), (98, 2), (100, 0.29), (100, 0.57), (50, 0.58), (90, 0.7), (103, 1)])
        a = G.gen_adapter(rng, 0, kinds=["a", "g"], minlen=L, maxlen=L)
        a["spec"] += f";e={K}"
        a["argv"] = [a["flag"], f"{a['name']}={a['spec']}"]
        ads1[0] = a
    dup_names = False
    if not pair_adapters and len(ads1) >= 2 and all(a["kind"] in ("a", "g", "a$", "g^", "aX", "gX") for a in ads1[:2]) and rng.random() < 0.2:
        # two adapters may carry the same name (also by accident: an unnamed adapter is called "1"); each keeps its own statistics
        ads1[1]["name"] = ads1[0]["name"]
        ads1[1]["argv"] = [ads1[1]["flag"], f"{ads1[1]['name']}={ads1[1]['spec']}"]
        dup_names = True
    wild = rng.random() < 0.25 and not dup_names
    if wild:
        # put N wildcards into some adapters (effective length < length)
        for a in ads1 + ads2:
            if a["kind"] in ("a", "g", "b") and rng.random() < 0.6:
                s = list(a["parts"][0])
                for p in rng.sample(range(len(s)), min(rng.choice([1, 2, 3]), len(s) - 1)):
                    # N, or another IUPAC code that the planted base still matches
                    codes = [c for c, bases in R.IUPAC.items() if s[p] in bases and len(bases) > 1 and c != "N"]
                    s[p] = "N" if rng.random() < 0.5 or not codes else rng.choice(codes)
                a["spec"] = "".join(s)
                a["argv"] = [a["flag"], f"{a['name']}={a['spec']}"]
    rate = rng.choice(RATES)
    times = 1 if pair_adapters else rng.choice([1, 1, 2, 3])
    action = rng.choice(["trim", "trim", "mask", "lowercase", "none", "retain"])
    if action == "retain":
        times = 1
    revcomp = (not pair_adapters) and rng.random() < 0.35
    opts = ["-e", rate, "-O", str(rng.randint(1, 4)), "-n", str(times), "--action", action]
    if rng.random() < 0.5:
        opts += ["--no-index"]
    if rng.random() < 0.25:
        opts += ["--no-indels"]
    if pair_adapters:
        opts += ["--pair-adapters"]
    if revcomp:
        opts += ["--revcomp"]
    cores = rng.choice([1, 1, 2, 3])
    recs1, recs2 = G.gen_reads(rng, rng.randint(20, 50), paired, ads1 if (ads1 or not revcomp) else ads2, ads2 or ads1, maxlen=35, revcomp_some=revcomp, nruns=True,
                               qual_profile="high", lower=rng.random() < 0.2)
    return dict(paired=paired, ads1=ads1, ads2=ads2, opts=opts, rate=float(rate), times=times, action=action, revcomp=revcomp,
                pair_adapters=pair_adapters, cores=cores, recs1=recs1, recs2=recs2 if paired else None, wild=wild, dup_names=dup_names)


def new_tally():
    return dict(total=0, five=collections.Counter(), three=collections.Counter(), adj=collections.Counter(), onrc=0)


def add_single(t, m):
    if m["kind"] == "before":
        t["five"][(m["rstop"], m["errors"])] += 1
    else:
        t["three"][(len(m["seq"]) - m["rstart"], m["errors"])] += 1
        b = m["seq"][m["rstart"] - 1:m["rstart"]] if m["rstart"] > 0 else ""
        t["adj"][b if b in ("A", "C", "G", "T") else ""] += 1


def tally_matches(groups, side, ranks=None, by_sequence=False):
    """ranks: for --pair-adapters, (names of the R1 adapters by rank, names of the R2 adapters by rank, side whose
    sequences are all distinct). The two adapters applied to a pair have the same rank, so when one side lists the same
    sequence twice the name to count the match under is taken from the partner's rank, not from the match object."""
    tally = collections.defaultdict(new_tally)
    with_adapter = 0
    n_rc = 0
    for g in groups.values():
        ms = []
        rc = False
        for e in g["events"]:
            if e["k"] == "mod" and e["c"] in climon.probe.ADAPTER_STAGE and (e["side"] or 1) == side:
                ms += e.get("matches", [])
                rc = rc or bool(e.get("rc"))
            elif e["k"] == "pmod" and e["c"] in climon.probe.ADAPTER_STAGE:
                here = e.get("matches1" if side == 1 else "matches2", [])
                if ranks and e["c"] == "PairedAdapterCutter" and ranks[2] != side and here:
                    other = e.get("matches2" if side == 1 else "matches1", [])
                    if other and other[0]["name"] in ranks[2 - side]:
                        idx = ranks[2 - side].index(other[0]["name"])
                        here = [dict(here[0], name=ranks[side - 1][idx])]
                ms += here
                rc = rc or bool(e.get("rc"))
        if ms:
            with_adapter += 1
        if rc:
            n_rc += 1
        for m in ms:
            t = tally[(m["name"], m["aseq"].upper()) if by_sequence and "aseq" in m and m["name"] in by_sequence else m["name"]]
            t["total"] += 1
            if m["kind"] == "linked":
                if m["front"] is not None:
                    add_single(t, m["front"])
                if m["back"] is not None:
                    add_single(t, m["back"])
            else:
                add_single(t, m)
            if rc:
                t["onrc"] += 1
    return tally, with_adapter, n_rc


def allowed_from_ranges(lengths, L):
    for i, up in enumerate(lengths):
        if L <= up:
            return i
    return None


def check_text(ctx, c, text, tally, side, viol):
    """The per-adapter header lines of the full text report: number of matches, split into 5' and 3' matches for linked and
    anywhere adapters, matches on the reverse complement."""
    import re
    ads = c["ads1"] if side == 1 else c["ads2"]
    for a in ads:
        who = ("First read: " if side == 1 else "Second read: ") if c["paired"] else ""
        m = re.search(r"^=== " + re.escape(who + "Adapter " + a["name"]) + r" ===\n\n([^\n]*)\n((?:[^\n]+\n)*)", text, re.M)
        if not m:
            viol("text-adapter-section", f"no section for adapter {a['name']} (read {side}) in the text report")
            continue
        head, body = m.group(1), m.group(2)
        t = tally.get(a["name"], new_tally())
        n5, n3 = sum(t["five"].values()), sum(t["three"].values())
        got = {}
        mm = re.search(r"5' trimmed: (\d+) times; 3' trimmed: (\d+) times", head)
        if mm:
            got["5' trimmed"], got["3' trimmed"] = int(mm.group(1)), int(mm.group(2))
            want = {"5' trimmed": n5, "3' trimmed": n3}
        else:
            mm = re.search(r"Trimmed: (\d+) times", head)
            if mm:
                got["Trimmed"] = int(mm.group(1))
            want = {"Trimmed": n5 + n3}
        mm = re.search(r"Reverse-complemented: (\d+) times", head)
        if mm:
            got["Reverse-complemented"] = int(mm.group(1))
        if c["revcomp"]:
            want["Reverse-complemented"] = t["onrc"]
        if a["kind"] == "b" and n5 + n3:
            m5 = re.search(r"^(\d+) times, it overlapped the 5' end of a read", text[m.end(1):m.end(1) + 400], re.M)
            m3 = re.search(r"^(\d+) times, it overlapped the 3' end or was within the read", text[m.end(1):m.end(1) + 400], re.M)
            got["overlapped the 5' end"] = int(m5.group(1)) if m5 else None
            got["overlapped the 3' end or within"] = int(m3.group(1)) if m3 else None
            want["overlapped the 5' end"], want["overlapped the 3' end or within"] = n5, n3
        if got != want:
            viol("text-adapter-header", f"text report, adapter {a['name']} (read {side}): {got}, tally of the applied matches {want}; line: {head!r}")
        ctx.count("text_adapter_sections_checked")


def check_side(ctx, c, case, rep_list, tally, side, viol):
    names = [a["name"] for a in (c["ads1"] if side == 1 else c["ads2"])]
    if [ar["name"] for ar in rep_list] != names:
        viol("adapter-list", f"report lists adapters {[ar['name'] for ar in rep_list]} for read {side}, given {names}")
        return
    for ar in rep_list:
        key = ar["name"]
        if c.get("dup_names") and side == 1 and names.count(ar["name"]) > 1:
            end_ = ar["five_prime_end"] or ar["three_prime_end"]
            key = (ar["name"], end_["sequence"].upper()) if end_ else key
        t = tally.get(key, new_tally())
        n_end_matches = 0
        for endname, key in (("five_prime_end", "five"), ("three_prime_end", "three")):
            end = ar[endname]
            exp = t[key]
            if end is None:
                if exp:
                    viol("end-missing", f"{ar['name']} {endname} is null but {sum(exp.values())} such matches were applied")
                continue
            got = collections.Counter()
            for row in end["trimmed_lengths"]:
                for e_, cnt in enumerate(row["counts"]):
                    if cnt:
                        got[(row["len"], e_)] += cnt
            if got != exp:
                viol("histogram", f"{ar['name']} {endname}: report {dict(got)} != tally (removed length, errors) {dict(exp)}", end=endname)
            if end["matches"] != sum(exp.values()):
                viol("end-matches", f"{ar['name']} {endname}.matches={end['matches']}, tally {sum(exp.values())}")
            n_end_matches += end["matches"]
            if key == "three":
                adj = {k: v for k, v in (end["adjacent_bases"] or {}).items() if v}
                if adj != {k: v for k, v in t["adj"].items() if v}:
                    viol("adjacent-bases", f"{ar['name']}: report {adj} != tally {dict(t['adj'])}")
            # allowed errors
            er = end.get("error_lengths")
            if er is not None:
                seq = end["sequence"]
                eff = len(seq) - seq.count("N")
                rate = end["error_rate"]
                bad = []
                for L in range(1, eff + 1):
                    a = allowed_from_ranges(er, L)
                    if a != int(L * rate):
                        bad.append((L, a, int(L * rate)))
                ctx.count("error_ranges_checked")
                if bad:
                    viol("error-lengths", f"{ar['name']} {endname}: error_lengths {er} for sequence {seq} rate {rate}: (L, allowed per report, int(L*rate)) = {bad[:4]}",
                         rate=rate)
        if ar["total_matches"] != n_end_matches:
            viol("total-matches", f"{ar['name']}: total_matches={ar['total_matches']} but the ends sum to {n_end_matches}")
        # with --revcomp the figure is reported for every adapter (0 included); without, there is nothing to report
        want_rc = t["onrc"] if c["revcomp"] else None
        if ar["on_reverse_complement"] != want_rc:
            viol("on-reverse-complement", f"{ar['name']}: on_reverse_complement={ar['on_reverse_complement']}, tally {want_rc} (--revcomp {'on' if c['revcomp'] else 'off'})")
        nontrivial = t["total"] > 0
        ctx.case((" ".join(case["argv"][:-3]), ar["name"], str(sorted(t["five"].items())), str(sorted(t["three"].items()))) if nontrivial else None)
        if nontrivial:
            ctx.count("adapter_entries_with_matches")
            if ar["linked"]:
                ctx.count("linked_entries")
            if t["five"] and t["three"]:
                ctx.count("entries_with_both_ends")


def one_case(ctx, k):
    rng = ctx.rng("c20", k)
    c = gen_case(rng)
    d = os.path.join(ctx.scratch, f"c{k}")
    os.makedirs(d, exist_ok=True)
    try:
        inputs = climon.write_inputs(d, c["recs1"], c["recs2"])
        argv = [x for a in c["ads1"] + c["ads2"] for x in a["argv"]] + c["opts"]
        if c["cores"] > 1:
            argv += ["-j", str(c["cores"]), "--buffer-size", "1500"]
        argv += ["--json", "rep.json", "-o", "o1.fq"] + (["-p", "o2.fq"] if c["paired"] else []) + inputs
        case = climon.case_record(argv, d, inputs)
        case["k"] = k
        run = climon.run(d, argv, tag="main")
        ctx.count("runs")
        ctx.count(f"cores:{c['cores']}")
        viol = lambda kind, text, **facts: ctx.violation(kind, f"{text}; argv={argv}", case, facts=facts, klass=kind)
        if run.rc != 0:
            ctx.count("runs_failed")
            ctx.extra.setdefault("failed_example", (argv, run.err[-300:]))
            return
        groups = run.read_groups()
        if len(groups) != len(c["recs1"]):
            ctx.count("trace_incomplete")
            return
        rep = run.json_report()
        ranks = None
        if c["pair_adapters"]:
            d1 = len({a["spec"] for a in c["ads1"]}) < len(c["ads1"])
            d2 = len({a["spec"] for a in c["ads2"]}) < len(c["ads2"])
            if d1 != d2:
                ranks = ([a["name"] for a in c["ads1"]], [a["name"] for a in c["ads2"]], 2 if d1 else 1)
                ctx.count("pair_adapter_runs_with_a_shared_adapter")
        if c["paired"] and not c["ads1"]:
            ctx.count("paired_runs_with_adapters_for_r2_only" + ("_and_revcomp" if c["revcomp"] else ""))
        t1, wa1, nrc = tally_matches(groups, 1, ranks, by_sequence={c["ads1"][0]["name"]} if c.get("dup_names") else False)
        if c.get("dup_names"):
            ctx.count("runs_with_two_adapters_of_one_name")
        check_side(ctx, c, case, rep["adapters_read1"], t1, 1, viol)
        if (rep["read_counts"]["read1_with_adapter"] or 0) != wa1:
            viol("with-adapter", f"read1_with_adapter={rep['read_counts']['read1_with_adapter']}, {wa1} reads had a match applied")
        if c["paired"]:
            t2, wa2, _ = tally_matches(groups, 2, ranks)
            check_side(ctx, c, case, rep["adapters_read2"] or [], t2, 2, viol)
            if (rep["read_counts"]["read2_with_adapter"] or 0) != wa2:
                viol("with-adapter", f"read2_with_adapter={rep['read_counts']['read2_with_adapter']}, {wa2} reads had a match applied")
        if "=== Summary ===" in run.out and not c.get("dup_names"):
            check_text(ctx, c, run.out, t1, 1, viol)
            if c["paired"]:
                check_text(ctx, c, run.out, t2, 2, viol)
        if c["revcomp"] and (rep["read_counts"]["reverse_complemented"] or 0) != nrc:
            viol("reverse-complemented", f"reverse_complemented={rep['read_counts']['reverse_complemented']}, {nrc} reads used the reverse complement")
        ctx.sample(dict(argv=argv, tally={str(n): dict(total=t["total"], five=len(t["five"]), three=len(t["three"])) for n, t in t1.items()}), limit=4)
    finally:
        shutil.rmtree(d, ignore_errors=True)


def run_shard(ctx):
    if not climon.require_hooks(ctx):
        return
    for k in range(ctx.scale(90, 3000)):
        if ctx.out_of_time():
            ctx.count("stopped_on_time_budget")
            break
        one_case(ctx, ctx.shard * 100000 + k)


def verdict_hook(merged, tier):
    c = merged["counters"]
    out = []
    if c.get("runs", 0) and c.get("runs_failed", 0) > 0.2 * c["runs"]:
        out.append(f"{c['runs_failed']} of {c['runs']} runs exited non-zero: {merged['extra'].get('failed_example', [''])[0]}")
    if c.get("trace_incomplete", 0) > 0.2 * max(1, c.get("runs", 0)):
        out.append("adapter-stage trace incomplete in more than 20% of the runs")
    return out


def replay(ctx, case):
    ctx.shard = case["k"] // 100000
    one_case(ctx, case["k"])
