"""C03 - output reads are aligned slices of the input; qualities stay in step."""
import os
import shutil

from .. import climon, fastx, gen_cli as G, refmodel as R

ID = "C03"
LEVEL = "exploration"
ENGINES = ["climon"]
TECHNIQUE = "offline checker over output files joined to inputs by unique read id + per-modifier trace (hooked __call__) + differential run with --action=trim"
LEVEL_TEXT = ("Real CLI runs over generated option sets (-u/-U, -q/-Q, --nextseq-trim, adapters with every --action and --times, "
              "--pair-adapters, linked, --poly-a, -l/-L, --trim-n, --zero-cap, --revcomp; single/paired; FASTQ/FASTA). Every written "
              "record is joined to its input record and must be the same contiguous slice of sequence and qualities (of the reverse "
              "complement / the mate where flagged); mask/lowercase are checked against a differential --action=trim run, retain/crop "
              "and none against the recorded matches; the hooked per-modifier trace must chain from the input record to the written one.")
LEVEL_TEXT += ' Every shard also runs cases with reads of 66-72 kb on one side of the adapter occurrences.'
LEVEL_TEXT += ' Reads may contain letters that are no nucleotide codes (I, Z, E, Q).'
LEVEL_NOTE = ("Trusted base: independent FASTA/FASTQ parser, refmodel.revcomp, interval arithmetic for the actions written from the "
              "documentation; hooks on modifier __call__ (missing hook => inconclusive for the action clauses, boundary clauses still decided).")
VARIANTS = {"quick": ["plain"], "thorough": ["plain"]}
BUDGET_S = {"quick": 150, "thorough": 3000}
FLOORS = {"quick": 2000, "thorough": 60000}
RULE = ("Seeded random option sets x inputs of 15-50 reads with unique ids and planted adapters. Non-trivial = a written record "
        "differs from its input record (changed by at least one stage); distinct by (option set, input record, output record).")
ASSUMPTIONS = [
    "read ids are unique, so joining output to input records is unambiguous",
    "post-adapter content-dependent modifiers (--poly-a, --trim-n, -l) are not combined with mask/lowercase, whose clause is stated relative to the trim action",
    "documented-unsupported combinations (linked+crop, retain/crop with --times>1) are not generated",
]

ACTIONS = ["trim", "trim", "mask", "lowercase", "none", "retain", "crop"]


def gen_case(rng):
    paired = rng.random() < 0.4
    fmt = "fastq" if rng.random() < 0.85 else "fasta"
    n1 = rng.randint(1, 3)
    kinds = [k for k in G.KINDS]
    ads1 = [G.gen_adapter(rng, i, kinds=kinds) for i in range(n1)]
    ads2 = []
    if paired and rng.random() < 0.6:
        ads2 = [G.gen_adapter(rng, i, upper=True, prefix="bd", kinds=kinds) for i in range(rng.randint(1, 2))]
    action = rng.choice(ACTIONS)
    times = rng.choice([1, 1, 2, 3])
    if action in ("retain", "crop") and rng.random() < 0.85:
        times = 1     # more rounds are documented as unsupported: mostly not asked for; when asked for, see evaluate()
    linked = any(a["kind"] == "linked" for a in ads1 + ads2)
    if linked and action == "crop":
        action = "trim"
    pair_adapters = False
    if paired and ads2 and rng.random() < 0.35:
        # --pair-adapters needs the same number of adapters on both sides and --times 1
        ads2 = [G.gen_adapter(rng, i, upper=True, prefix="bd", kinds=["a", "g", "a$", "g^"]) for i in range(len(ads1))]
        pair_adapters = True
        times = 1
        linked = any(a["kind"] == "linked" for a in ads1)
        if linked:
            ads1 = [G.gen_adapter(rng, i, kinds=["a", "g", "a$", "g^", "aX"]) for i in range(len(ads1))]
    revcomp = (not pair_adapters) and rng.random() < 0.3
    pre = []
    if rng.random() < 0.4:
        pre += ["-u", str(rng.choice([1, 2, 5, -3, -1]))]
        if rng.random() < 0.25:
            pre += ["-u", str(-int(pre[-1]) // abs(int(pre[-1])) * rng.randint(1, 4))]
    if paired and rng.random() < 0.3:
        pre += ["-U", str(rng.choice([1, -4, 3]))]
    if fmt == "fastq":
        if rng.random() < 0.25:
            pre += ["--nextseq-trim", str(rng.choice([10, 20]))]
        if rng.random() < 0.4:
            pre += ["-q", rng.choice(["10", "20,15", "5,0"])]
            if paired and rng.random() < 0.4:
                pre += ["-Q", rng.choice(["15", "0", "10,20"])]
    ad_opts = [x for a in ads1 + ads2 for x in a["argv"]]
    ad_opts += ["--action", action, "-n", str(times), "-e", rng.choice(["0.1", "0.2", "0"]), "-O", str(rng.choice([1, 3, 5]))]
    if pair_adapters:
        ad_opts += ["--pair-adapters"]
    if revcomp:
        ad_opts += ["--revcomp"]
    if rng.random() < 0.3:
        ad_opts += ["--no-indels"]
    post = []
    zero_cap = fmt == "fastq" and rng.random() < 0.35
    qbase = 64 if (fmt == "fastq" and rng.random() < 0.2) else 33
    if action not in ("mask", "lowercase"):
        if rng.random() < 0.3:
            post += ["--poly-a"]
        if rng.random() < 0.3:
            post += ["-l", str(rng.choice([10, 25, -7]))]
            if paired and rng.random() < 0.4:
                post += ["-L", str(rng.choice([8, -5]))]
        if rng.random() < 0.3:
            post += ["--trim-n"]
    if zero_cap:
        post += ["--zero-cap"]
    if qbase != 33:
        post += ["--quality-base", str(qbase)]
    feats = dict(qual_base=qbase, maxlen=50, polya="--poly-a" in post, nruns=True, lower=rng.random() < 0.3,
                 revcomp_some=revcomp, qual_profile=None if not zero_cap else rng.choice([None, "lowbase"]),
                 alphabets=["ACGT", "ACGT", "ACGTN", "ACGTIZEQ"])
    recs1, recs2 = G.gen_reads(rng, rng.randint(15, 50), paired, ads1, ads2 or ads1, **feats)
    return dict(paired=paired, fmt=fmt, ads1=ads1, ads2=ads2, action=action, times=times, pair_adapters=pair_adapters,
                revcomp=revcomp, pre=pre, ad_opts=ad_opts, post=post, zero_cap=zero_cap, qbase=qbase, recs1=recs1, recs2=recs2 if paired else None)


def zc(q, on, base=33):
    if q is None or not on:
        return q
    return "".join(c if ord(c) >= base else chr(base) for c in q)


def find_slices(out_s, out_q, src_s, src_q, cmp=None):
    L = len(out_s)
    res = []
    for s in range(0, len(src_s) - L + 1):
        seg = src_s[s:s + L]
        ok = (seg == out_s) if cmp is None else cmp(seg, out_s)
        if ok and (src_q is None or out_q is None or src_q[s:s + L] == out_q):
            res.append((s, s + L))
    return res


def is_slice_step(i, o):
    """o is the same contiguous slice of i (sequence and qualities)."""
    return bool(find_slices(o[1], o[2], i[1], i[2]))


def expected_interval(matches, action, n):
    """Reference interval arithmetic for retain/crop (documented in the guide, 'action')."""
    m = matches[-1]
    if m["kind"] == "linked":
        f, b = m["front"], m["back"]
        if action == "retain":
            start = f["rstart"] if f else 0
            off = f["rstop"] if f else 0
            end = (b["rstop"] + off) if b else n
            return start, end
        return None
    if m["kind"] == "before":
        return (m["rstart"], n) if action == "retain" else (m["rstart"], m["rstop"])
    return (0, m["rstop"]) if action == "retain" else (m["rstart"], m["rstop"])


def check_adapter_stage(ctx, c, case, side, I, O, matches, is_rc, trim_O, key):
    """Action clauses. I/O: snapshots [name, seq, qual] in the orientation the stage worked on."""
    action = c["action"]
    viol = lambda kind, text: ctx.violation(kind, f"{text}; read {key} side {side} argv={case['argv']}", case,
                                            facts=dict(action=action, pair_adapters=c["pair_adapters"], paired=c["paired"]),
                                            klass=action)
    if not matches:
        same = (O[1], O[2]) == (I[1], I[2])
        if action == "lowercase":
            # nothing removed: the whole read is the kept part, which lowercase upper-cases; with --pair-adapters an
            # unmatched pair is documented to stay unchanged, so both spellings are accepted there
            upper = (O[1], O[2]) == (I[1].upper(), I[2])
            if not (c["ads1"] if side == 1 else c["ads2"]):
                pass   # no adapters were given for this mate: no action applies to it, it must stay exactly as it was
            else:
                same = upper or (c["pair_adapters"] and same)
        if not same:
            viol("untouched-without-match", f"no match but adapter stage changed {I[1]!r} -> {O[1]!r}")
        return
    ctx.count("adapter_stage_with_match:" + action)
    n = len(I[1])
    if action == "trim":
        if not is_slice_step(I, O):
            viol("trim-not-slice", f"trim output {O[1]!r}/{O[2]!r} is not a slice of {I[1]!r}/{I[2]!r}")
    elif action == "none":
        if (O[1], O[2]) != (I[1], I[2]):
            viol("none-changed", f"action none changed the read: {I[1]!r} -> {O[1]!r}")
    elif action in ("retain", "crop"):
        lo = 0
        if len(matches) > 1:
            # only reachable if the tool accepts retain/crop with several rounds (it is documented to refuse): the
            # interval around the *last* match, whose coordinates refer to what the earlier rounds left of the read
            if action != "crop" or any(m["kind"] == "linked" for m in matches):
                ctx.count("multi_round_retain_crop_not_judged")
                return
            hi = n
            for m in matches[:-1]:
                if m["kind"] == "before":
                    lo += m["rstop"]
                else:
                    hi = lo + m["rstart"]
        iv = expected_interval(matches, action, n)
        if iv is None:
            return
        iv = (iv[0] + lo, iv[1] + lo)
        s, e = iv
        if (O[1], O[2]) != (I[1][s:e], None if I[2] is None else I[2][s:e]):
            viol(f"{action}-interval", f"{action}: expected [{s}:{e}] of {I[1]!r} = {I[1][s:e]!r}, got {O[1]!r}; matches={[{k: v for k, v in m.items() if k in ('kind','rstart','rstop','name')} for m in matches]}")
    elif action in ("mask", "lowercase"):
        if len(O[1]) != n or (O[2] is not None and O[2] != I[2]):
            viol(f"{action}-length", f"{action} changed length or qualities: {I[1]!r}/{I[2]!r} -> {O[1]!r}/{O[2]!r}")
            return
        if trim_O is None:
            ctx.count("mask_lowercase_without_differential")
            return
        cands = find_slices(trim_O[1], trim_O[2], I[1].upper() if action == "lowercase" else I[1], I[2])
        if not cands:
            ctx.count("differential_trim_not_a_slice")
            return
        ok = False
        for s, e in cands:
            if action == "mask":
                exp = "N" * s + I[1][s:e] + "N" * (n - e)
            else:
                exp = I[1][:s].lower() + I[1][s:e].upper() + I[1][e:].lower()
            if exp == O[1]:
                ok = True
                break
        if not ok:
            s, e = cands[0]
            viol(f"{action}-pattern", f"{action}: trim keeps [{s}:{e}] of {I[1]!r} but output is {O[1]!r}")


def evaluate(ctx, c, case, run, trim_run):
    recs_in = {1: {fastx.rid(r[0]): r for r in c["recs1"]}}
    if c["paired"]:
        recs_in[2] = {fastx.rid(r[0]): r for r in c["recs2"]}
    outs = {1: run.records("o1.out")}
    if c["paired"]:
        outs[2] = run.records("o2.out")
    groups = run.read_groups()
    tgroups = trim_run.read_groups() if trim_run is not None else {}
    hooks_ok = bool(groups)
    if not hooks_ok:
        ctx.count("runs_without_trace")
    for side, fo in outs.items():
        if fo is None:
            ctx.violation("missing-output", f"output file for side {side} missing; argv={case['argv']}", case)
            continue
        fmt, recs = fo
        if fmt == "error":
            ctx.case(("unparseable", " ".join(case["argv"])))
            ctx.violation("unparseable-output", f"output file of side {side} does not parse ({recs}): sequence and "
                          f"qualities out of step or broken record; argv={case['argv']}", case,
                          facts=dict(action=c["action"], paired=c["paired"]))
            continue
        seen = set()
        for name, s, q in recs:
            key = fastx.rid(name)
            if key in seen:
                ctx.violation("duplicate-record", f"read {key} written twice; argv={case['argv']}", case)
            seen.add(key)
            isrc = name.endswith(" rc")
            if key not in recs_in[side]:
                ctx.violation("unknown-record", f"record {name!r} has no input record", case)
                continue
            if c["paired"] and isrc:
                src = recs_in[3 - side][key]
            else:
                src = recs_in[side][key]
            ss, sq = src[1], src[2]
            if isrc and not c["paired"]:
                ss, sq = R.revcomp(ss), (None if sq is None else sq[::-1])
            if fmt == "fastq":
                if q is None or len(s) != len(q):
                    ctx.violation("length-mismatch", f"read {key}: {len(s)} bases, qualities {q!r}", case)
                    continue
            sq2 = zc(sq, c["zero_cap"], c.get("qbase", 33))
            if c["fmt"] == "fasta":
                sq2 = None
            action = c["action"]
            if action == "mask":
                cmp = lambda a, b: all(y == x or y == "N" for x, y in zip(a, b))
            elif action == "lowercase":
                cmp = lambda a, b: a.upper() == b.upper()
            else:
                cmp = None
            sl = find_slices(s, q if sq2 is not None else None, ss, sq2, cmp)
            changed = (s, q) != (src[1], src[2]) or isrc
            ctx.case((" ".join(case["argv"][:-2]), src[1], src[2], s, q) if changed else None)
            if changed:
                ctx.count("changed_records")
            if not sl:
                ctx.violation("not-a-slice", f"read {key} side {side}: output {s!r}/{q!r} is not an aligned slice of "
                              f"{'rc ' if isrc else ''}source {ss!r}/{sq2!r}; argv={case['argv']}", case,
                              facts=dict(action=action, paired=c["paired"]), klass=action)
            if (action not in ("mask", "lowercase")) and c["fmt"] == "fastq" and not c["zero_cap"] and q is not None and sl:
                pass
            # --- trace clauses -------------------------------------------------
            g = groups.get(key)
            if g is None:
                continue
            tg = tgroups.get(key)
            check_trace(ctx, c, case, key, side, g, tg, src_record=recs_in[side][key], written=(name, s, q))


def side_events(g, side):
    """Sequence of (class, in_snapshot, out_snapshot, matches, rc) for one mate."""
    out = []
    for e in g["events"]:
        if e["k"] == "mod" and (e["side"] == side or (e["side"] == 0 and side == 1)):
            out.append((e["c"], e["i"], e["o"], e.get("matches", []), e.get("rc")))
        elif e["k"] == "pmod":
            m = e.get("matches1" if side == 1 else "matches2", [])
            out.append((e["c"], e["i"][side - 1], None if e["o"] is None else e["o"][side - 1], m, e.get("rc"), e))
    return out


def check_trace(ctx, c, case, key, side, g, tg, src_record, written):
    evs = side_events(g, side)
    if not evs:
        if (written[1], written[2]) != (src_record[1], src_record[2] if c["fmt"] == "fastq" else None) and c["fmt"] == "fastq":
            ctx.violation("changed-without-modifier", f"read {key} changed but no modifier event recorded", case)
        return
    prev = [src_record[0], src_record[1], src_record[2] if c["fmt"] == "fastq" else None]
    for ev in evs:
        cls, i, o = ev[0], ev[1], ev[2]
        swapped = False
        if cls == "PairedReverseComplementer" and ev[4]:
            swapped = True
        if (i[1], i[2]) != (prev[1], prev[2]):
            ctx.violation("chain-broken", f"read {key} side {side}: {cls} received {i[1]!r}/{i[2]!r} but the previous stage "
                          f"produced {prev[1]!r}/{prev[2]!r}; argv={case['argv']}", case, klass=cls)
        if o is None:
            ctx.violation("modifier-returned-none", f"{cls} returned None", case)
            return
        if cls in climon.probe.ADAPTER_STAGE:
            I = i
            if cls == "ReverseComplementer" and ev[4]:
                I = [i[0], R.revcomp(i[1]), None if i[2] is None else i[2][::-1]]
            if swapped:
                full = ev[5]
                I = full["i"][2 - side]   # the mate's input
            trim_O = None
            if tg is not None:
                tevs = [t for t in side_events(tg, side) if t[0] == cls]
                if tevs and bool(tevs[0][4]) == bool(ev[4]):
                    trim_O = tevs[0][2]
                elif tevs:
                    ctx.count("differential_orientation_differs")
            check_adapter_stage(ctx, c, case, side, I, o, ev[3], ev[4], trim_O, key)
        elif cls == "ZeroCapper":
            if o[1] != i[1] or o[2] != zc(i[2], True, c.get("qbase", 33)):
                ctx.violation("zero-cap", f"ZeroCapper: {i[2]!r} -> {o[2]!r}", case)
        elif cls in ("LengthTagModifier", "SuffixRemover", "PrefixSuffixAdder", "Renamer", "PairedEndRenamer"):
            if (o[1], o[2]) != (i[1], i[2]):
                ctx.violation("name-modifier-changed-bases", f"{cls} changed sequence/qualities", case)
        else:
            if not is_slice_step(i, o):
                ctx.violation("modifier-not-slice", f"{cls}: {i[1]!r}/{i[2]!r} -> {o[1]!r}/{o[2]!r} is not one aligned slice; "
                              f"argv={case['argv']}", case, klass=cls)
        prev = o
    if (prev[1], prev[2]) != (written[1], written[2] if c["fmt"] == "fastq" else None) and c["fmt"] == "fastq":
        ctx.violation("written-differs-from-last-stage", f"read {key} side {side}: last stage produced {prev[1]!r}/{prev[2]!r}, "
                      f"file has {written[1]!r}/{written[2]!r}", case)


def one_case(ctx, k):
    rng = ctx.rng("c03", k)
    c = gen_case(rng)
    if (k % 100000) % 40 == 3 and c["recs1"]:
        # long reads (tens of thousands of bases on one side of the adapter occurrences): the same rules at any length
        ctx.count("cases_with_reads_over_65536_bases")
        for j in range(min(2, len(c["recs1"]))):
            name, s_, q_ = c["recs1"][j]
            extra = G.rnd(rng, rng.randint(66000, 72000))
            s_ = s_ + extra if j == 0 else extra + s_
            if q_ is not None:
                q_ = q_ + "I" * len(extra) if j == 0 else "I" * len(extra) + q_
            c["recs1"][j] = (name, s_, q_)
    d = os.path.join(ctx.scratch, f"c{k}")
    os.makedirs(d, exist_ok=True)
    try:
        inputs = climon.write_inputs(d, c["recs1"], c["recs2"], c["fmt"])
        io = ["-o", "o1.out"] + (["-p", "o2.out"] if c["paired"] else []) + inputs
        argv = c["pre"] + c["ad_opts"] + c["post"] + io
        case = climon.case_record(argv, d, inputs)
        case["c"] = {k2: v for k2, v in c.items() if k2 not in ("recs1", "recs2", "ads1", "ads2")}
        case["k"] = k
        run = climon.run(d, argv, tag="main")
        ctx.count("runs")
        ctx.count("action:" + c["action"])
        if c["paired"]:
            ctx.count("paired_runs")
        if run.rc == 2 and c["action"] in ("retain", "crop") and c["times"] > 1:
            ctx.count("retain_crop_with_several_rounds_refused")
            ctx.case(None)
            return
        if run.rc != 0:
            ctx.count("runs_failed")
            ctx.extra.setdefault("failed_example", (argv, run.err[-300:]))
            ctx.case(None)
            return
        trim_run = None
        if c["action"] in ("mask", "lowercase"):
            argv2 = list(argv)
            argv2[argv2.index("--action") + 1] = "trim"
            argv2 = [("t1.out" if x == "o1.out" else "t2.out" if x == "o2.out" else x) for x in argv2]
            trim_run = climon.run(d, argv2, tag="trim")
            if trim_run.rc != 0:
                trim_run = None
        ctx.sample(dict(argv=argv, first_input=c["recs1"][0], n_reads=len(c["recs1"])), limit=5)
        evaluate(ctx, c, case, run, trim_run)
    finally:
        shutil.rmtree(d, ignore_errors=True)


def run_shard(ctx):
    climon.require_hooks(ctx)
    n = ctx.scale(250, 6000)
    for k in range(n):
        if ctx.out_of_time():
            ctx.count("stopped_on_time_budget")
            break
        one_case(ctx, ctx.shard * 100000 + k)


def verdict_hook(merged, tier):
    c = merged["counters"]
    out = []
    if c.get("runs", 0) and c.get("runs_failed", 0) > 0.2 * c["runs"]:
        out.append(f"{c['runs_failed']} of {c['runs']} runs exited non-zero: {merged['extra'].get('failed_example', [''])[0]}")
    return out


def replay(ctx, case):
    # regenerate the case from its index: the generator is a pure function of (seed, shard, k)
    ctx.shard = case["k"] // 100000
    one_case(ctx, case["k"])
