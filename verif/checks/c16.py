"""C16 - --revcomp keeps the orientation that matches strictly better."""
import os
import shutil

from .. import climon, fastx, gen_cli as G, refmodel as R
from ..alnmon import rnd_seq, mutate

ID = "C16"
LEVEL = "exploration"
ENGINES = ["alnmon", "climon"]
TECHNIQUE = "monitor on hooked ReverseComplementer/PairedReverseComplementer calls (both inner match_and_trim results vs the returned record, flag and counters) + differential CLI runs: --revcomp vs the same command on the input and on the reverse-complemented (mate-swapped) input"
LEVEL_TEXT = ("For every read through the real (Paired)ReverseComplementer the monitor obtains both inner match_and_trim results and checks "
              "the decision rule (reverse complement used iff it has a match and a strictly higher score sum; ties keep the given orientation), "
              "the returned record (trimmed reverse complement with reversed qualities, ' rc' appended), the flag and the counters. At the "
              "command line three real runs per case are compared: with --revcomp, without it on the input, and without it on the "
              "reverse-complemented (R1/R2-swapped) input; each output record of the first must equal the record of the orientation the score "
              "rule selects, so later stages are covered too; read_counts.reverse_complemented must equal the number selected.")
LEVEL_TEXT += " The --revcomp run's info and rest files must show, read by read, what the run on the selected orientation shows; the stage is also given reads that earlier stages shortened (API: original read longer than the stage input; command line: -u/-q together with --revcomp versus --revcomp on their output)."
LEVEL_TEXT += " Read names that already end in ' rc'; paired command-line runs that show each mate's own match in its name ({adapter_name}, {match_sequence}) and filter on R1 only."
LEVEL_TEXT += ' Linked adapters take part; their score is computed from the parts.'
LEVEL_NOTE = ("Trusted base: refmodel.revcomp, the match scores reported by the traced adapter stage of the two reference runs, "
              "independent FASTQ parser. Workload includes error rates >= 0.4 (negative scores), palindromic adapters (ties), --times, every action.")
VARIANTS = {"quick": ["plain"], "thorough": ["plain"]}
BUDGET_S = {"quick": 150, "thorough": 3000}
FLOORS = {"quick": 3000, "thorough": 100000}
RULE = ("Seeded random adapter sets x reads with planted occurrences in either orientation. Non-trivial = at least one orientation has an "
        "adapter match (so the rule had something to decide); distinct by (adapters, options, read).")
ASSUMPTIONS = [
    "the inner match_and_trim calls are repeatable (they do not update statistics)",
    "CLI part needs the trace of the adapter stage for the scores; if the hook is missing the CLI clause is inconclusive",
]


def gen_adapters(rng):
    import cutadapt.adapters as A

    out = []
    specs = []
    for i in range(rng.randint(1, 3)):
        t = rng.choice(["back", "front", "anywhere", "back", "nback", "nfront", "prefix", "suffix"])
        L = rng.randint(4, 12)
        s = rnd_seq(rng, L, "ACGT")
        if rng.random() < 0.2:
            h = rnd_seq(rng, L // 2, "ACGT")
            s = h + R.revcomp(h)  # palindromic: both orientations score the same
        rate = rng.choice([0, 0.1, 0.2, 0.4, 0.5, 0.9])
        sp = dict(type=t, seq=s, rate=rate, o=rng.randint(1, 4), indels=rng.random() < 0.7, name=f"a{i}")
        if rng.random() < 0.15:
            # a linked adapter: its score is the sum of the scores of the parts that were found
            sp.update(type="linked", seq2=rnd_seq(rng, rng.randint(4, 12), "ACGT"), anchored=rng.random() < 0.5, rate=rng.choice([0, 0.1, 0.2]),
                      req=(rng.random() < 0.5, rng.random() < 0.5))
        specs.append(sp)
    return specs


def mscore(m):
    """Score of an applied match, for a linked match computed from its parts (not read off the object under test)."""
    if hasattr(m, "front_match"):
        return (m.front_match.score if m.front_match is not None else 0) + (m.back_match.score if m.back_match is not None else 0)
    return m.score


def build(specs):
    import cutadapt.adapters as A

    cls = dict(back=A.BackAdapter, front=A.FrontAdapter, anywhere=A.AnywhereAdapter, prefix=A.PrefixAdapter,
               suffix=A.SuffixAdapter, nfront=A.NonInternalFrontAdapter, nback=A.NonInternalBackAdapter)
    ads = []
    for sp in specs:
        if sp["type"] == "linked":
            f = (A.PrefixAdapter if sp["anchored"] else A.FrontAdapter)(sp["seq"], max_errors=sp["rate"], indels=sp["indels"], **({} if sp["anchored"] else dict(min_overlap=sp["o"])))
            b = A.BackAdapter(sp["seq2"], max_errors=sp["rate"], indels=sp["indels"], min_overlap=sp["o"])
            ads.append(A.LinkedAdapter(f, b, front_required=sp["req"][0] or sp["anchored"], back_required=sp["req"][1], name=sp["name"]))
            continue
        kw = dict(max_errors=sp["rate"], indels=sp["indels"], name=sp["name"])
        if sp["type"] not in ("prefix", "suffix"):
            kw["min_overlap"] = sp["o"]
        ads.append(cls[sp["type"]](sp["seq"], **kw))
    return ads


def gen_read(rng, specs):
    s = rnd_seq(rng, rng.randint(0, 30), "ACGT")
    for _ in range(rng.choice([0, 1, 1, 2])):
        sp = rng.choice(specs)
        a = sp["seq"] if not (sp["type"] == "linked" and rng.random() < 0.5) else sp["seq"] + rnd_seq(rng, rng.randint(0, 6), "ACGT") + sp["seq2"]
        if rng.random() < 0.3:
            a = a[: rng.randint(1, len(a))] if rng.random() < 0.5 else a[rng.randint(0, len(a) - 1):]
        if rng.random() < 0.4:
            a = mutate(rng, a, rng.randint(1, 3), "ACGT", True)
        if rng.random() < 0.5:
            a = R.revcomp(a)
        pos = rng.choice([0, len(s), rng.randint(0, len(s))])
        s = s[:pos] + a + s[pos:]
    if rng.random() < 0.15:
        s = rnd_seq(rng, rng.randint(1, 12), "A")  # poly-A vs high error rates: negative scores
    if rng.random() < 0.12:
        # soft-masked input: what the stage does to the letter case must not depend on --revcomp either
        s = s.lower() if rng.random() < 0.5 else "".join(c.lower() if rng.random() < 0.4 else c for c in s)
    return s


def snap(r):
    return (r.name, r.sequence, r.qualities)


def api_single(ctx, specs, ads, opts, read):
    from cutadapt.modifiers import AdapterCutter, ReverseComplementer, ModificationInfo
    from dnaio import SequenceRecord

    case = dict(api="single", specs=specs, opts=opts, read=read)
    action = None if opts["action"] == "none" else opts["action"]
    cutter = AdapterCutter(ads, times=opts["times"], action=action, index=False)
    rcm = ReverseComplementer(cutter, rc_suffix=opts["suffix"])
    q = "".join(chr(33 + (i * 11) % 41) for i in range(len(read)))
    # names are free text: some already end in what the suffix would add (output of an earlier --revcomp pass)
    nm = ("r1 c", "r1 c", "r1", "second_pass rc", "r1 comment rc", "x_rc", "r1 c rc rc")[(len(read) + sum(map(ord, read[:5]))) % 7]
    rec = SequenceRecord(nm, read, q)
    fwd_t, fwd_m = cutter.match_and_trim(rec[:])
    rev_in = SequenceRecord(nm, R.revcomp(read), q[::-1])
    rev_t, rev_m = cutter.match_and_trim(rev_in[:])
    fs, rs = sum(mscore(m) for m in fwd_m), sum(mscore(m) for m in rev_m)
    use = bool(rev_m) and rs > fs
    # the stage may receive a read that earlier stages have already shortened: the record as read from the input
    # (kept in the ModificationInfo) is then longer than the read the stage works on
    if len(read) % 2 == 0:
        orig = SequenceRecord(nm, "GT" + read + "C", "II" + q + "I")
        info = ModificationInfo(orig)
        ctx.count("stage_input_shorter_than_original_read")
    else:
        info = ModificationInfo(rec)
    wa0, rc0 = cutter.with_adapters, rcm.reverse_complemented
    stats0 = {a: (st.reverse_complemented,) for a, st in cutter.adapter_statistics.items()}
    try:
        out = rcm(rec[:], info)
    except Exception as e:
        ctx.case(("s", str(specs), str(opts), read))
        ctx.violation("exception", f"ReverseComplementer raised {type(e).__name__}: {e!r}; forward score {fs} ({len(fwd_m)} matches), "
                      f"reverse score {rs} ({len(rev_m)} matches); adapters={[(s['type'], s['seq'], s['rate']) for s in specs]} read={read!r} opts={opts}",
                      case, facts=dict(forward_score=fs, reverse_matches=len(rev_m), exc=type(e).__name__))
        return
    nontrivial = bool(fwd_m or rev_m)
    ctx.case(("s", str(specs), str(opts), read) if nontrivial else None)
    if fwd_m and rev_m:
        ctx.count("both_orientations_match")
        if fs == rs:
            ctx.count("score_ties")
    if fs < 0 or rs < 0:
        ctx.count("negative_scores")
    exp = rev_t if use else fwd_t
    exp_name = exp.name + (opts["suffix"] if (use and opts["suffix"]) else "")
    det = (f"forward score {fs} ({len(fwd_m)} m), reverse score {rs} ({len(rev_m)} m); adapters={[(s['type'], s['seq'], s['rate']) for s in specs]} "
           f"read={read!r} opts={opts}")
    if bool(info.is_rc) != use:
        ctx.violation("decision", f"is_rc={info.is_rc}, rule says {use}; {det}", case, klass=str(use))
    if (out.sequence, out.qualities) != (exp.sequence, exp.qualities):
        ctx.violation("returned-record", f"returned {out.sequence!r}/{out.qualities!r}, expected {exp.sequence!r}/{exp.qualities!r}; {det}", case)
    elif out.name != exp_name:
        ctx.violation("name-suffix", f"name {out.name!r}, expected {exp_name!r}; {det}", case)
    if use:
        ctx.count("reverse_complement_used")
        # independent of dnaio's reverse_complement(): slice of the reference reverse complement, qualities reversed
        if opts["action"] in ("trim", "retain", "crop", "none"):
            rcs, rcq = R.revcomp(read), q[::-1]
            ok = any(rcs[s:s + len(out.sequence)] == out.sequence and rcq[s:s + len(out.sequence)] == out.qualities
                     for s in range(len(rcs) - len(out.sequence) + 1))
            if not ok:
                ctx.violation("rc-qualities", f"output {out.sequence!r}/{out.qualities!r} is not a slice of the reverse complement with reversed qualities; {det}", case)
    if rcm.reverse_complemented - rc0 != (1 if use else 0):
        ctx.violation("rc-counter", f"reverse_complemented counter changed by {rcm.reverse_complemented - rc0}; {det}", case)
    chosen = rev_m if use else fwd_m
    if cutter.with_adapters - wa0 != (1 if chosen else 0):
        ctx.violation("with-adapters", f"with_adapters changed by {cutter.with_adapters - wa0}, chosen orientation has {len(chosen)} matches; {det}", case)
    if len(info.matches) != len(chosen):
        ctx.violation("matches-recorded", f"{len(info.matches)} matches recorded, chosen orientation has {len(chosen)}; {det}", case)
    for a, st in cutter.adapter_statistics.items():
        d_rc = st.reverse_complemented - stats0[a][0]
        n_here = sum(1 for m in chosen if m.adapter is a)
        if d_rc != (n_here if use else 0):
            ctx.violation("per-adapter-rc-count", f"adapter {a.name}: on-reverse-complement count changed by {d_rc}, expected {n_here if use else 0}; {det}", case)
    if nontrivial:
        ctx.sample(dict(adapters=[(s["type"], s["seq"], s["rate"]) for s in specs], opts=opts, read=read, forward_score=fs, reverse_score=rs, used_rc=use))


def api_paired(ctx, specs1, ads1, specs2, ads2, opts, r1s, r2s):
    from cutadapt.modifiers import AdapterCutter, PairedReverseComplementer, ModificationInfo
    from dnaio import SequenceRecord

    case = dict(api="paired", specs1=specs1, specs2=specs2, opts=opts, r1=r1s, r2=r2s)
    action = None if opts["action"] == "none" else opts["action"]
    c1 = AdapterCutter(ads1, times=opts["times"], action=action, index=False) if ads1 else None
    c2 = AdapterCutter(ads2, times=opts["times"], action=action, index=False) if ads2 else None
    prc = PairedReverseComplementer(c1, c2, rc_suffix=opts["suffix"])
    mk = lambda n, s: SequenceRecord(n, s, "".join(chr(33 + (i * 7) % 41) for i in range(len(s))))
    pn = ("p", "p", "pair_second_pass rc", "p rc")[(len(r1s) + len(r2s)) % 4]
    r1, r2 = mk(pn + " x" if not pn.endswith("rc") else pn, r1s), mk(pn + " y" if not pn.endswith("rc") else pn, r2s)

    def mt(c, r):
        return c.match_and_trim(r[:]) if c is not None else (r, [])

    f1, f1m = mt(c1, r1)
    f2, f2m = mt(c2, r2)
    s1, s1m = mt(c1, r2)
    s2, s2m = mt(c2, r1)
    fs = sum(mscore(m) for m in f1m) + sum(mscore(m) for m in f2m)
    ss = sum(mscore(m) for m in s1m) + sum(mscore(m) for m in s2m)
    use = bool(s1m or s2m) and ss > fs
    i1, i2 = ModificationInfo(r1), ModificationInfo(r2)
    rc0 = prc.reverse_complemented
    try:
        o1, o2 = prc(r1[:], r2[:], i1, i2)
    except Exception as e:
        ctx.case(("p", str(specs1), str(specs2), str(opts), r1s, r2s))
        ctx.violation("exception", f"PairedReverseComplementer raised {type(e).__name__}: {e!r}; scores {fs}/{ss}", case,
                      facts=dict(forward_score=fs, reverse_matches=len(s1m) + len(s2m), exc=type(e).__name__))
        return
    nontrivial = bool(f1m or f2m or s1m or s2m)
    ctx.case(("p", str(specs1), str(specs2), str(opts), r1s, r2s) if nontrivial else None)
    e1, e2 = (s1, s2) if use else (f1, f2)
    suf = opts["suffix"] if (use and opts["suffix"]) else ""
    det = f"unswapped score {fs}, swapped score {ss} ({len(s1m)}+{len(s2m)} matches); R1={r1s!r} R2={r2s!r} opts={opts}"
    if bool(i1.is_rc) != use or bool(i2.is_rc) != use:
        ctx.violation("decision", f"is_rc=({i1.is_rc},{i2.is_rc}), rule says {use}; {det}", case, klass="paired" + str(use))
    if (o1.sequence, o1.qualities, o2.sequence, o2.qualities) != (e1.sequence, e1.qualities, e2.sequence, e2.qualities):
        ctx.violation("returned-record", f"returned ({o1.sequence!r}, {o2.sequence!r}), expected ({e1.sequence!r}, {e2.sequence!r}); {det}", case)
    elif (o1.name, o2.name) != (e1.name + suf, e2.name + suf):
        ctx.violation("name-suffix", f"names ({o1.name!r}, {o2.name!r}); {det}", case)
    if prc.reverse_complemented - rc0 != (1 if use else 0):
        ctx.violation("rc-counter", f"reverse_complemented counter changed by {prc.reverse_complemented - rc0}; {det}", case)
    if use:
        ctx.count("paired_swap_used")
    ctx.count("paired_api_cases")


def cli_case(ctx, k):
    rng = ctx.rng("c16cli", k)
    paired = rng.random() < 0.3
    ads1 = [G.gen_adapter(rng, i, kinds=["a", "g", "b", "a$", "g^", "aX", "linked"]) for i in range(rng.randint(1, 2))]
    ads2 = [G.gen_adapter(rng, i, upper=True, prefix="bd", kinds=["a", "g"]) for i in range(rng.randint(0, 1))] if paired else []
    action = rng.choice(["trim", "trim", "mask", "lowercase", "none", "retain"])
    times = 1 if action == "retain" else rng.choice([1, 1, 2])
    opts = ["--action", action, "-n", str(times), "-e", rng.choice(["0.1", "0.2", "0.5"]), "-O", str(rng.choice([2, 3, 5])), "--no-index"]
    post = []
    rename = rng.random() < 0.25 and not paired
    # paired: what the later stages see of the matches ({adapter_name} per mate, a filter that asks about R1 only)
    paired_rename = paired and rng.random() < 0.4
    if paired and rng.random() < 0.3:
        post += [rng.choice(["--discard-untrimmed", "--discard-trimmed"]), "--pair-filter", "first"]
    if rng.random() < 0.4 and action == "trim":
        post += ["-l", str(rng.choice([12, -9]))]
    if rng.random() < 0.3 and action == "trim":
        post += ["--trim-n"]
    if rng.random() < 0.3:
        post += ["-m", str(rng.randint(1, 12))]
    recs1, recs2 = G.gen_reads(rng, rng.randint(15, 40), paired, ads1, ads2 or ads1, maxlen=40, revcomp_some=True, nruns=True, lower=rng.random() < 0.3)
    d = os.path.join(ctx.scratch, f"cli{k}")
    os.makedirs(d, exist_ok=True)
    try:
        inputs = climon.write_inputs(d, recs1, recs2 if paired else None)
        orig_inputs, pre = list(inputs), []
        if not paired and rng.random() < 0.35:
            # stages before adapter trimming: the --revcomp stage works on what they leave. One run with everything must
            # equal the --revcomp run on the output of a run that only does the earlier stages.
            pre = rng.choice([["-u", "3"], ["-u", "-4"], ["-q", "20"], ["-u", "2", "-u", "-2"], ["-q", "15,10"]])
            rp = climon.run(d, pre + ["-o", "pre1.fq"] + inputs, tag="pre", trace=False)
            fo = rp.records("pre1.fq") if rp.rc == 0 else None
            if not fo or fo[0] == "error":
                pre = []
            else:
                recs1 = [tuple(x) for x in fo[1]]
                inputs = ["pre1.fq"]
                ctx.count("cli_runs_with_earlier_stages")
        if paired:
            rc_inputs = [inputs[1], inputs[0]]
        else:
            rcrecs = [(n, R.revcomp(s), q[::-1]) for n, s, q in recs1]
            rc_inputs = climon.write_inputs(d, rcrecs, None, names=("rc1", "rc2"))
        adargs = [x for a in ads1 + ads2 for x in a["argv"]]
        ren = ["--rename", "{id} {rc}"] if rename else []
        out = lambda t: ["-o", f"{t}1.fq"] + (["-p", f"{t}2.fq"] if paired else [])
        base = adargs + opts + post + (["--rename", "{id} {adapter_name}|{match_sequence}"] if paired_rename else [])
        if paired_rename:
            ctx.count("cli_paired_runs_with_adapter_names_in_the_read_names")
        side_files = (not paired) and rng.random() < 0.6
        has_linked = any(a["kind"] == "linked" for a in ads1)     # the rest file is documented not to work with linked adapters
        side = (lambda t: ["--info-file", f"{t}.info"] + ([] if has_linked else ["--rest-file", f"{t}.rest"])) if side_files else (lambda t: [])
        out0 = out
        out = lambda t: out0(t) + side(t)
        argv_r = base + ["--revcomp", "--json", "rep.json"] + ren + out("r") + inputs
        run_r = climon.run(d, argv_r, tag="rev", trace=False)
        case = climon.case_record(argv_r, d, inputs)
        case["cli_k"] = k
        ctx.count("cli_runs")
        if run_r.rc != 0:
            ctx.case(("clifail", k))
            if "AssertionError" in run_r.err or "Traceback" in run_r.err:
                ctx.violation("cli-crash", f"--revcomp run crashed: {run_r.err.strip().splitlines()[-1][:200]}; argv={argv_r}", case,
                              facts=dict(exc="AssertionError" if "AssertionError" in run_r.err else "other"))
            else:
                ctx.count("cli_runs_failed")
            return
        run_f = climon.run(d, base + out("f") + inputs, tag="fwd")
        run_c = climon.run(d, base + out("c") + rc_inputs, tag="rcin")
        if run_f.rc != 0 or run_c.rc != 0:
            ctx.count("cli_reference_runs_failed")
            return
        gf, gc = run_f.read_groups(), run_c.read_groups()
        if not gf or not gc:
            ctx.mark_inconclusive("adapter-stage trace unavailable for the reference runs")
            return

        def score(g):
            s, n = 0, 0
            for e in g["events"]:
                for key in ("matches", "matches1", "matches2"):
                    for m in e.get(key, []) or []:
                        n += 1
                        if m["kind"] == "linked":
                            s += (m["front"]["score"] if m["front"] else 0) + (m["back"]["score"] if m["back"] else 0)
                        else:
                            s += m["score"]
            return s, n

        sides = (1, 2) if paired else (1,)
        R_ = {s: run_r.records(f"r{s}.fq") for s in sides}
        F_ = {s: run_f.records(f"f{s}.fq") for s in sides}
        C_ = {s: run_c.records(f"c{s}.fq") for s in sides}
        for dd in (R_, F_, C_):
            for s in sides:
                if dd[s] is None or dd[s][0] == "error":
                    ctx.violation("cli-output", f"output missing/unparseable {dd[s]}; argv={argv_r}", case)
                    return
        n_rc = 0
        for name, s_, q_ in recs1:
            key = fastx.rid(name)
            if key not in gf or key not in gc:
                continue
            sf, nf = score(gf[key])
            sc, nc = score(gc[key])
            use = nc > 0 and sc > sf
            n_rc += use
            ctx.case(("cli", " ".join(base), s_, recs2[int(key[1:])][1] if paired else "") if (nf or nc) else None)
            for side in sides:
                rr = {fastx.rid(x[0]): x for x in R_[side][1]}.get(key)
                ref = {fastx.rid(x[0]): x for x in (C_ if use else F_)[side][1]}.get(key)
                if (rr is None) != (ref is None):
                    ctx.violation("cli-filter-orientation", f"read {key}: written with --revcomp: {rr is not None}, in the run of the selected "
                                  f"orientation ({'rc' if use else 'fwd'}): {ref is not None}; scores fwd {sf} rc {sc}; argv={argv_r}", case)
                    continue
                if rr is None:
                    continue
                if rename:
                    exp_name = f"{key} {'rc' if use else ''}"
                elif paired_rename:
                    exp_name = ref[0]       # any --rename switches the suffix off; the name shows this mate's own match
                else:
                    exp_name = ref[0] + (" rc" if use else "")
                if (rr[1], rr[2]) != (ref[1], ref[2]):
                    ctx.violation("cli-orientation", f"read {key} side {side}: --revcomp wrote {rr[1]!r}, the {'reverse-complement' if use else 'forward'} "
                                  f"run wrote {ref[1]!r}; scores fwd {sf} ({nf} m) rc {sc} ({nc} m); argv={argv_r}", case, klass=str(use))
                elif rr[0] != exp_name:
                    ctx.violation("cli-name", f"read {key}: name {rr[0]!r}, expected {exp_name!r}; argv={argv_r}", case)
        if pre:
            run_k = climon.run(d, pre + base + ["--revcomp"] + ren + ["-o", "k1.fq"] + orig_inputs, tag="comb", trace=False)
            K = run_k.records("k1.fq") if run_k.rc == 0 else None
            if K is None or K[0] == "error" or K[1] != R_[1][1]:
                j = None if not K or K[0] == "error" else next((i for i, (a, b) in enumerate(zip(K[1], R_[1][1])) if a != b), None)
                ctx.violation("cli-stage-input", f"{pre} together with --revcomp in one run differs from --revcomp on the output of {pre} alone "
                              f"(exit {run_k.rc}); first differing record: {None if j is None else (K[1][j], R_[1][1][j])}; argv={pre + argv_r}", case, klass="pre")
        if side_files:
            # later outputs use the chosen orientation as well: the info and rest files of the --revcomp run must show, read by read,
            # what the run on the selected orientation shows (apart from the name suffix and the reverse-complement flag column)
            def by_read(path, keycol):
                try:
                    with open(os.path.join(d, path)) as f:
                        lines = f.read().split("\n")
                except OSError:
                    return None
                m = {}
                for ln in lines:
                    if ln:
                        cols = ln.split("\t") if keycol == 0 else ln.split(" ", 1)
                        nm = cols[0] if keycol == 0 else (cols[1] if len(cols) > 1 else "")
                        m.setdefault(fastx.rid(nm), []).append(cols)
                return m
            IR, IF, IC = by_read("r.info", 0), by_read("f.info", 0), by_read("c.info", 0)
            RR, RF, RC = (by_read("r.rest", 1), by_read("f.rest", 1), by_read("c.rest", 1)) if not has_linked else ({}, {}, {})
            if None in (IR, IF, IC, RR, RF, RC):
                ctx.violation("cli-side-output", f"info/rest file missing; argv={argv_r}", case)
            else:
                for name, s_, q_ in recs1:
                    key = fastx.rid(name)
                    if key not in gf or key not in gc:
                        continue
                    sf, nf = score(gf[key])
                    sc, nc = score(gc[key])
                    use = nc > 0 and sc > sf
                    got, ref = IR.get(key, []), (IC if use else IF).get(key, [])
                    strip = lambda rows: [r[1:11] if len(r) > 4 else r[1:4] for r in rows]
                    ctx.count("info_rows_compared", len(got))
                    if strip(got) != strip(ref):
                        ctx.violation("cli-info-orientation", f"read {key}: info rows with --revcomp {strip(got)} differ from those of the "
                                      f"{'reverse-complement' if use else 'forward'} run {strip(ref)}; scores fwd {sf} rc {sc}; argv={argv_r}", case, klass="info" + str(use))
                    elif any(len(r) > 4 and r[-1] != ("1" if use else "0") for r in got):
                        ctx.violation("cli-info-flag", f"read {key}: reverse-complement flag column {[r[-1] for r in got]}, rule says {use}; argv={argv_r}", case)
                    g2, r2 = [c[0] for c in RR.get(key, [])], [c[0] for c in (RC if use else RF).get(key, [])]
                    if g2 != r2:
                        ctx.violation("cli-rest-orientation", f"read {key}: rest file with --revcomp has {g2}, the selected orientation's run {r2}; argv={argv_r}", case)
        rep = run_r.json_report()["read_counts"]["reverse_complemented"]
        if rep != n_rc:
            ctx.violation("cli-rc-count", f"read_counts.reverse_complemented={rep}, {n_rc} reads selected by the rule; argv={argv_r}", case)
    finally:
        shutil.rmtree(d, ignore_errors=True)


def run_shard(ctx):
    rng = ctx.rng("c16")
    n = ctx.scale(450, 15000)
    for i in range(n):
        if ctx.out_of_time():
            ctx.count("stopped_on_time_budget")
            break
        specs = gen_adapters(rng)
        try:
            ads = build(specs)
        except Exception:
            ctx.count("specs_rejected")
            continue
        action = rng.choice(["trim", "trim", "mask", "lowercase", "none", "retain", "crop"])
        if action == "crop" and any(sp["type"] == "linked" for sp in specs):
            action = "trim"      # crop with a linked adapter ends in a traceback (known, outside the properties)
        times = 1 if action in ("retain", "crop") else rng.choice([1, 1, 2, 3])
        opts = dict(action=action, times=times, suffix=rng.choice([" rc", " rc", None]))
        for _ in range(8):
            api_single(ctx, specs, ads, opts, gen_read(rng, specs))
        if i % 4 == 0:
            specs2 = gen_adapters(rng) if rng.random() < 0.7 else []
            try:
                ads2 = build(specs2)
            except Exception:
                continue
            if opts["action"] == "crop" and any(sp["type"] == "linked" for sp in specs2):
                continue
            s1, a1 = (specs, ads) if rng.random() < 0.8 else ([], [])
            if not a1 and not ads2:
                continue
            for _ in range(4):
                api_paired(ctx, s1, a1, specs2, ads2, opts, gen_read(rng, specs), gen_read(rng, specs2 or specs))
    if climon.require_hooks(ctx):
        for k in range(ctx.scale(8, 200)):
            cli_case(ctx, ctx.shard * 100000 + k)


def replay(ctx, case):
    if case.get("cli"):
        ctx.shard = case["cli_k"] // 100000
        cli_case(ctx, case["cli_k"])
    elif case.get("api") == "single":
        api_single(ctx, case["specs"], build(case["specs"]), case["opts"], case["read"])
    else:
        api_paired(ctx, case["specs1"], build(case["specs1"]), case["specs2"], build(case["specs2"]), case["opts"], case["r1"], case["r2"])
