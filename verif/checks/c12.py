"""C12 - broken input makes the run fail visibly; it never hangs or loses reads silently."""
import gzip
import os
import re
import zlib
import shutil

from .. import climon, fastx, gen_cli as G

ID = "C12"
LEVEL = "fault_enumeration"
ENGINES = ["mpmon", "climon"]
TECHNIQUE = "fault enumeration on generated input files (every truncation point / position class, single-record corruptions, truncated and bit-flipped gzip streams) x cores x chunking x schedule perturbation; oracle from an independent strict parser; hang decided by process-state sampling"
LEVEL_TEXT = ("For small generated files - plain and gzip, FASTQ and FASTA, single-end, two-file paired and interleaved - the check enumerates "
              "truncations (thorough: at every byte; quick: at every position class - inside header/sequence/'+'/qualities, at each record "
              "boundary, before/after the final newline), single-record corruptions of the first, a middle and the last record (quality length "
              "differs from sequence length, missing '+', header without '@', non-ASCII byte, missing mate, mismatching mate name, odd record "
              "count when interleaved), truncated and bit-flipped gzip streams; each with 1, 2 and 3 cores, buffer sizes that put the fault in "
              "the first/middle/last chunk, and two schedule perturbations. Ground truth comes from an independent strict parser: malformed => "
              "non-zero exit status, non-empty stderr, termination; exit 0 => the input was well-formed and the output equals the processing of "
              "every record; always: the output parses completely and is a prefix, in input order, of the output for the longest well-formed "
              "prefix. A run that exceeds the watchdog is a violation only if all its processes sleep without consuming CPU (deadlock).")
LEVEL_TEXT += " Further fault classes: bit flips in body and stored CRC of 900-record gz/bz2/xz files (also as R2 of a pair), corrupted records in a multi-chunk file with compressed outputs, interleaved FASTA with an odd record count, blank lines after the last record (odd and even record counts), a quality character outside '!'..'~' (known finding)."
LEVEL_TEXT += ' In a quarter of the single-file layouts the reads go to standard output; an error message is a line on standard error beyond the informational ones.'
LEVEL_TEXT += ' The first file of a pair truncated, down to an empty (also empty gzip) file, with the second complete.'
LEVEL_NOTE = ("Trusted base: fastx.parse_fastq/parse_fasta (strict), Python's gzip module, process sampling via /proc. The expected output is "
              "produced by the real tool on the well-formed prefix with one core. Bit flips are applied to the deflate body and trailer only "
              "(header flips can leave a valid stream). Process deaths are not injected.")
VARIANTS = {"quick": ["plain"], "thorough": ["plain"]}
BUDGET_S = {"quick": 300, "thorough": 5400}
FLOORS = {"quick": 300, "thorough": 10000}
RULE = ("Per shard: generated base files x enumerated faults x (cores, buffer size, perturbation). Non-trivial = the faulted file is "
        "malformed according to the strict parser (the run must fail visibly); well-formed truncations (at record boundaries) are "
        "evaluated too (exit 0, complete output) but counted as trivial. Distinct by (file content, fault, cores, buffer size).")
ASSUMPTIONS = ["a truncation at a record boundary, or directly before the final newline, leaves a well-formed file",
               "any strict non-empty prefix of a single-member gzip stream is a truncated stream",
               "for FASTA, every truncation leaves a well-formed (shorter) FASTA file unless it cuts into the '>' of a header"]

AD = "AGATCGGAAGAGC"
CMD = ["-a", AD, "-m", "3", "-q", "10"]
CMD_FA = ["-a", AD, "-m", "3"]


def gen_records(rng, n):
    recs = []
    for i in range(n):
        L = rng.randint(1, 30)
        s = G.rnd(rng, L)
        if rng.random() < 0.4:
            s = s[:rng.randint(1, len(s))] + AD[:rng.randint(3, 13)]
        q = "".join(chr(33 + rng.choice([5, 20, 30, 40])) for _ in s)
        recs.append((f"r{i}q c", s, q))
    return recs


def position_classes(text, rng, per_class=2):
    """Truncation offsets representing every position class of a FASTQ/FASTA text."""
    offsets = set()
    lines = text.split("\n")
    pos = 0
    classes = {}
    for li, line in enumerate(lines[:-1] if text.endswith("\n") else lines):
        kind = li % 4
        start, end = pos, pos + len(line)
        classes.setdefault(("inside", kind), []).extend(range(start + 1, end)) if end - start > 1 else None
        classes.setdefault(("line_start", kind), []).append(start)
        classes.setdefault(("before_newline", kind), []).append(end)
        pos = end + 1
    for key, lst in classes.items():
        lst = [p for p in lst if 0 <= p < len(text)]
        for p in rng.sample(lst, min(per_class, len(lst))):
            offsets.add(p)
        if lst:
            offsets.add(lst[0])
            offsets.add(lst[-1])
    offsets.add(0)
    offsets.add(len(text) - 1)
    return sorted(offsets)


def corrupt_record(rng, recs, idx, kind):
    """Return FASTQ text with record idx corrupted."""
    out = []
    for i, (n, s, q) in enumerate(recs):
        if i != idx:
            out.append(f"@{n}\n{s}\n+\n{q}\n")
            continue
        if kind == "qual_short":
            out.append(f"@{n}\n{s}\n+\n{q[:-1]}\n")
        elif kind == "qual_long":
            out.append(f"@{n}\n{s}\n+\n{q}I\n")
        elif kind == "no_plus":
            out.append(f"@{n}\n{s}\n{q}\n")
        elif kind == "plus_replaced":
            out.append(f"@{n}\n{s}\n-\n{q}\n")
        elif kind == "no_at":
            out.append(f"{n}\n{s}\n+\n{q}\n")
        elif kind == "non_ascii_seq":
            p = rng.randrange(len(s))
            out.append(f"@{n}\n{s[:p]}\xe9{s[p+1:]}\n+\n{q}\n")
        elif kind == "qual_ctrl":
            # same length, still ASCII, but not a quality character (printable range is '!'..'~')
            p = rng.randrange(len(q)) if q else 0
            out.append(f"@{n}\n{s}\n+\n{q[:p]}{rng.choice([chr(9), ' ', chr(127), chr(1)])}{q[p+1:]}\n")
        elif kind == "missing_line":
            out.append(f"@{n}\n{s}\n+\n")
        else:
            raise ValueError(kind)
    return "".join(out)


CORRUPTIONS = ["qual_short", "qual_long", "no_plus", "plus_replaced", "no_at", "non_ascii_seq", "missing_line"]


class Fault:
    def __init__(self, label, files, paired_mode, malformed, wf_prefix, fmt="fastq", detail="", out_ext=""):
        self.label = label
        self.files = files            # {name: bytes}
        self.paired_mode = paired_mode  # None | 'two' | 'interleaved'
        self.malformed = malformed
        self.wf_prefix = wf_prefix    # {name: text} longest well-formed prefix (record-wise) of each input
        self.fmt = fmt
        self.detail = detail
        self.out_ext = out_ext        # compression suffix of the output files
        self.only_defect = None       # set when the file has exactly one, named, kind of defect
        self.extra_opts = []          # further options of the run (and of the run that yields the expected output)
        self.force_buf = None         # buffer size for which the fault position was chosen
        self.cmd = None               # base command when it must differ from the default one


def wf_prefix_fastq(text):
    """(text of the longest prefix of complete well-formed records, whether the whole text is well-formed).
    The final newline is optional."""
    lines = text.split("\n")
    recs = []
    i = 0
    wf = True
    while i < len(lines):
        if i == len(lines) - 1 and lines[i] == "":
            break  # the text ended with a newline
        chunk = lines[i:i + 4]
        if len(chunk) < 4:
            wf = False
            break
        h, s_, p_, q = chunk
        if not (h.startswith("@") and p_.startswith("+") and len(s_) == len(q) and all(ord(c) < 128 for c in h + s_ + p_ + q)):
            wf = False
            break
        recs.append(chunk)
        i += 4
    return "".join("\n".join(c) + "\n" for c in recs), wf


def make_faults(ctx, rng, thorough):
    """Yield Fault objects for one generated base data set."""
    n = rng.randint(4, 9)
    recs1 = gen_records(rng, n)
    recs2 = [(f"r{i}q d", G.rnd(rng, rng.randint(1, 25)), None) for i in range(n)]
    recs2 = [(nm, s, "".join(chr(33 + rng.choice([5, 30, 40])) for _ in s)) for nm, s, _ in recs2]
    t1 = fastx.format_fastq(recs1)
    t2 = fastx.format_fastq(recs2)
    inter = fastx.format_fastq([x for pair in zip(recs1, recs2) for x in pair])
    # (a) truncations, plain FASTQ single-end
    offs = range(0, len(t1)) if thorough else position_classes(t1, rng)
    for o in offs:
        cut = t1[:o]
        pref, wf = wf_prefix_fastq(cut)
        yield Fault(f"truncate-fastq@{o}", {"in1.fq": cut.encode()}, None, not wf, {"in1.fq": pref}, detail=repr(cut[-25:]))
    # final newline missing is fine
    # (a') truncation of R2 in two-file paired mode / of the interleaved file
    offs2 = (range(0, len(t2), 3) if thorough else position_classes(t2, rng, per_class=1))
    for o in offs2:
        cut = t2[:o]
        pref, wf = wf_prefix_fastq(cut)
        n2 = len(fastx.parse_fastq(pref, strict=False))
        malformed = (not wf) or n2 != n
        p1 = fastx.format_fastq(recs1[:n2])
        yield Fault(f"truncate-R2@{o}", {"in1.fq": t1.encode(), "in2.fq": cut.encode()}, "two", malformed,
                    {"in1.fq": p1, "in2.fq": fastx.format_fastq(recs2[:n2])}, detail=f"R2 has {n2} of {n} records")
    # the first file truncated (R2 complete), down to an empty file: the mates of R2 are missing
    for o in ([0, 1] + [rng.randrange(2, len(t1)) for _ in range(2 if not thorough else 12)]):
        cut = t1[:o]
        pref, wf = wf_prefix_fastq(cut)
        n1 = len(fastx.parse_fastq(pref, strict=False))
        yield Fault(f"truncate-R1@{o}", {"in1.fq": cut.encode(), "in2.fq": t2.encode()}, "two", (not wf) or n1 != n,
                    {"in1.fq": fastx.format_fastq(recs1[:n1]), "in2.fq": fastx.format_fastq(recs2[:n1])}, detail=f"R1 has {n1} of {n} records, R2 all")
    yield Fault("truncate-R1-gz-empty", {"in1.fq.gz": gzip.compress(b"", 6, mtime=0), "in2.fq": t2.encode()}, "two", True,
                {"in1.fq.gz": "", "in2.fq": ""}, detail="R1 is an empty gzip stream, R2 complete")
    offs3 = (range(0, len(inter), 5) if thorough else position_classes(inter, rng, per_class=1))
    for o in offs3:
        cut = inter[:o]
        pref, wf = wf_prefix_fastq(cut)
        k = len(fastx.parse_fastq(pref, strict=False))
        malformed = (not wf) or k % 2 == 1
        pairs = k // 2
        yield Fault(f"truncate-interleaved@{o}", {"inter.fq": cut.encode()}, "interleaved", malformed,
                    {"inter.fq": fastx.format_fastq([x for pair in zip(recs1[:pairs], recs2[:pairs]) for x in pair])},
                    detail=f"{k} complete records")
    # (b) single-record corruptions of the first, a middle and the last record
    for idx in sorted({0, n // 2, n - 1}):
        for kind in CORRUPTIONS:
            text = corrupt_record(rng, recs1, idx, kind)
            # ground truth from the strict parser, not from the intention: a corruption can by coincidence leave a
            # longer well-formed prefix (e.g. the next header taken as a quality line of the right length)
            pref, wf = wf_prefix_fastq(text)
            if wf:
                continue
            yield Fault(f"corrupt-{kind}@rec{idx}", {"in1.fq": text.encode("latin-1")}, None, True, {"in1.fq": pref})
        if recs1[idx][1]:
            text = corrupt_record(rng, recs1, idx, "qual_ctrl")
            f = Fault(f"corrupt-qual_ctrl@rec{idx}", {"in1.fq": text.encode("latin-1")}, None, True, None,
                      detail="one quality character replaced by a control character, blank or DEL")
            f.only_defect = "quality-char-out-of-range"
            yield f
        # paired: mismatching mate name, missing mate
        bad2 = list(recs2)
        bad2[idx] = ("other" + bad2[idx][0], bad2[idx][1], bad2[idx][2])
        yield Fault(f"mate-name-mismatch@rec{idx}", {"in1.fq": t1.encode(), "in2.fq": fastx.format_fastq(bad2).encode()}, "two", True,
                    {"in1.fq": fastx.format_fastq(recs1[:idx]), "in2.fq": fastx.format_fastq(recs2[:idx])})
        yield Fault(f"mate-name-mismatch-interleaved@rec{idx}",
                    {"inter.fq": fastx.format_fastq([x for pair in zip(recs1, bad2) for x in pair]).encode()}, "interleaved", True,
                    {"inter.fq": fastx.format_fastq([x for pair in zip(recs1[:idx], recs2[:idx]) for x in pair])})
        missing = recs2[:idx] + recs2[idx + 1:]
        # after removing a mate the names no longer line up from record idx on (or R2 is simply shorter for the last record)
        yield Fault(f"mate-missing@rec{idx}", {"in1.fq": t1.encode(), "in2.fq": fastx.format_fastq(missing).encode()}, "two", True,
                    {"in1.fq": fastx.format_fastq(recs1[:idx]), "in2.fq": fastx.format_fastq(recs2[:idx])})
    odd = [x for pair in zip(recs1, recs2) for x in pair][:-1]
    yield Fault("interleaved-odd-count", {"inter.fq": fastx.format_fastq(odd).encode()}, "interleaved", True,
                {"inter.fq": fastx.format_fastq(odd[:-1])})
    # (c) gzip: truncated and bit-flipped streams
    gz = gzip.compress(t1.encode(), 6, mtime=0)
    gz_offs = range(1, len(gz)) if thorough else sorted(set([1, 5, 10, 11, len(gz) // 2, len(gz) - 9, len(gz) - 8, len(gz) - 4, len(gz) - 1]
                                                              + [rng.randrange(11, len(gz) - 8) for _ in range(4)]))
    for o in gz_offs:
        if 0 < o < len(gz):
            # records decompressed before the cut may legitimately be written before the error: they must be a
            # prefix of the output for the complete file
            yield Fault(f"truncate-gzip@{o}of{len(gz)}", {"in1.fq.gz": gz[:o]}, None, True, {"in1.fq.gz": t1}, detail="gzip")
    # (c') a larger compressed file, so that the stream breaks while chunks are being read, not during format detection
    big = gen_records(rng, 900 if not thorough else 2500)
    tb = fastx.format_fastq(big)
    for kind, ext in (("gz", ".gz"), ("bz2", ".bz2"), ("xz", ".xz")):
        blob = fastx.compress(tb.encode(), kind) if kind != "gz" else gzip.compress(tb.encode(), 1, mtime=0)
        cuts = [len(blob) // 3, 2 * len(blob) // 3, len(blob) - 5, len(blob) - 1]
        if thorough:
            cuts += [rng.randrange(20, len(blob) - 8) for _ in range(8)]
        for o in sorted(set(cuts)):
            yield Fault(f"truncate-big-{kind}@{o}of{len(blob)}", {"in1.fq" + ext: blob[:o]}, None, True, {"in1.fq" + ext: tb}, detail=f"{kind}, 900+ records")
    yield Fault("gzip-empty", {"in1.fq.gz": b""}, None, False, {"in1.fq.gz": ""}, detail="gzip")
    # deflate body and CRC32 only: the 10-byte header has don't-care fields, and the final ISIZE field is not verified by
    # every decompressor (the data and its CRC are intact then, nothing is lost)
    flips = [rng.randrange(10 * 8, (len(gz) - 4) * 8) for _ in range(6 if not thorough else 60)]
    for bit in flips:
        b = bytearray(gz)
        b[bit // 8] ^= 1 << (bit % 8)
        try:
            if gzip.decompress(bytes(b)) == t1.encode():
                continue   # the flip hit padding / don't-care bits: the stream is still a valid encoding of the same data
        except Exception:
            pass
        yield Fault(f"bitflip-gzip@bit{bit}", {"in1.fq.gz": bytes(b)}, None, True, None, detail="gzip-bitflip")
    # (c-) the same for the larger files: a flipped bit in the body usually surfaces only as a checksum failure at the end of the
    # stream, i.e. while chunks are being read and the workers are already running; plus the stored CRC itself
    for kind, ext in (("gz", ".gz"), ("bz2", ".bz2"), ("xz", ".xz")):
        blob = fastx.compress(tb.encode(), kind) if kind != "gz" else gzip.compress(tb.encode(), 1, mtime=0)
        bits = [rng.randrange(12 * 8, (len(blob) - 12) * 8) for _ in range(2 if not thorough else 12)]
        if kind == "gz":
            bits += [(len(blob) - 8) * 8 + rng.randrange(32) for _ in range(1 if not thorough else 4)]
        for bit in bits:
            b = bytearray(blob)
            b[bit // 8] ^= 1 << (bit % 8)
            try:
                if fastx.decompress_bytes(bytes(b), kind) == tb.encode():
                    continue
            except Exception:
                pass
            yield Fault(f"bitflip-big-{kind}@bit{bit}", {"in1.fq" + ext: bytes(b)}, None, True, None, detail=f"{kind}-bitflip, 900+ records")
    # paired: the damaged stream is R2
    b = bytearray(gzip.compress(fastx.format_fastq([(nm.replace(" c", " d"), sq, ql) for nm, sq, ql in big]).encode(), 1, mtime=0))
    b[len(b) - 8 + rng.randrange(4)] ^= 1 << rng.randrange(8)
    yield Fault("bitflip-big-gz-R2@crc", {"in1.fq": tb.encode(), "in2.fq.gz": bytes(b)}, "two", True, None, detail="paired, CRC of the R2 gzip stream damaged")
    # (c*) the '@' of a header turned into '>' exactly where a chunk of the multi-core reader starts (a chunk taken on its own
    # would look like FASTA); with options that could make the damage invisible in the output (length filter, untrimmed filter)
    import io as _io
    import dnaio as _dnaio
    for bs in (8000, 20000):
        starts, pos = [], 0
        for chunk in _dnaio.read_chunks(_io.BytesIO(tb.encode()), bs):
            starts.append(pos)
            pos += len(chunk)
        for ci in sorted(set([1, len(starts) // 2, len(starts) - 1]) & set(range(1, len(starts)))):
            st = starts[ci]
            if tb[st] != "@":
                continue
            text = tb[:st] + ">" + tb[st + 1:]
            extra = rng.choice([["-M", "30"], ["--discard-untrimmed"], ["-M", "30"]])
            f = Fault(f"corrupt-big-at_to_gt@chunk{ci}of{len(starts)}", {"in1.fq": text.encode()}, None, True, {"in1.fq": tb[:st]},
                      detail=f"header '@' replaced by '>' at the start of chunk {ci} for buffer size {bs}, options {extra}")
            f.extra_opts, f.force_buf = extra, bs
            f.cmd = ["-a", AD]        # nothing that needs qualities: a record parsed without them would stop the run by itself
            yield f
    # (c+) a corrupted record early in a multi-chunk file, with outputs that go through an external compressor
    for idx in (5, len(big) // 2):
        for kind in ("qual_short", "no_plus"):
            text = corrupt_record(rng, big, idx, kind)
            pref, wf = wf_prefix_fastq(text)
            if wf:
                continue
            ext = rng.choice([".xz", ".zst", ".gz", ".bz2", ""])
            yield Fault(f"corrupt-big-{kind}@rec{idx}", {"in1.fq": text.encode("latin-1")}, None, True, {"in1.fq": pref},
                        detail=f"900+ records, output suffix {ext!r}", out_ext=ext)
    # (c'') paired input whose second file is a truncated compressed stream
    big2 = [(nm.replace(" c", " d"), G.rnd(rng, len(sq)), ql) for nm, sq, ql in big]
    tb2 = fastx.format_fastq(big2)
    blob2 = gzip.compress(tb2.encode(), 1, mtime=0)
    for o in (len(blob2) // 2, len(blob2) - 3):
        yield Fault(f"truncate-big-gz-R2@{o}of{len(blob2)}", {"in1.fq": tb.encode(), "in2.fq.gz": blob2[:o]}, "two", True,
                    {"in1.fq": tb, "in2.fq.gz": tb2}, detail="paired, R2 gzip truncated")
    # (a'') white space after the last record (empty lines, a lone CR LF): not a record; odd and even record counts, since
    # the chunk reader cuts FASTQ at even record counts and the stray lines can end up alone in the last chunk
    for cnt in (n, n - 1):
        body = fastx.format_fastq(recs1[:cnt])
        for tail in ("\n", "\n\n\n", "\r\n"):
            pref, wf = wf_prefix_fastq(body + tail)
            if wf:
                continue
            yield Fault(f"trailing-blank-lines@{cnt}rec", {"in1.fq": (body + tail).encode()}, None, True, {"in1.fq": pref}, detail=f"{cnt} records followed by {tail!r}")
    pref, wf = wf_prefix_fastq(tb + "\n")
    if not wf:
        yield Fault("trailing-blank-lines-big@900rec", {"in1.fq": (tb + "\n").encode()}, None, True, {"in1.fq": pref}, detail="900+ records followed by an empty line")
    # (d0) interleaved FASTA whose last pair lacks its second read (cut at a record boundary): malformed for a paired run
    inter_recs = [x for pair in zip(recs1, recs2) for x in pair]
    for npairs in sorted({1, n // 2, n - 1}):
        odd_fa = fastx.format_fasta(inter_recs[:2 * npairs + 1])
        yield Fault(f"interleaved-fasta-odd-count@{2 * npairs + 1}", {"inter.fa": odd_fa.encode()}, "interleaved", True,
                    {"inter.fa": fastx.format_fasta(inter_recs[:2 * npairs])}, fmt="fasta", detail="one record without partner at the end")
    big_inter = [x for pair in zip(big[:400], [(nm.replace(" c", " d"), sq[::-1], ql) for nm, sq, ql in big[:400]]) for x in pair]
    yield Fault("interleaved-fasta-odd-count-big@799", {"inter.fa": fastx.format_fasta(big_inter[:799]).encode()}, "interleaved", True,
                {"inter.fa": fastx.format_fasta(big_inter[:798])}, fmt="fasta", detail="399 pairs and one record without partner")
    # (d) FASTA truncations: every prefix is well-formed unless it ends inside/just after nothing
    fa = fastx.format_fasta(recs1)
    offs_fa = range(0, len(fa), 2) if thorough else position_classes(fa, rng, per_class=1)
    for o in offs_fa:
        cut = fa[:o]
        yield Fault(f"truncate-fasta@{o}", {"in1.fa": cut.encode()}, None, False, {"in1.fa": cut}, fmt="fasta")


def expected_output(ctx, d, fault, cmd, cache):
    """Output of the real tool (one core, no perturbation) on the longest well-formed prefix."""
    if fault.wf_prefix is None:
        return None
    key = (tuple(sorted(fault.wf_prefix.items())), fault.paired_mode, fault.fmt, tuple(fault.extra_opts), tuple(cmd))
    if key in cache:
        return cache[key]
    e = os.path.join(d, "expect")
    shutil.rmtree(e, ignore_errors=True)
    os.makedirs(e)
    names = []
    for name, text in fault.wf_prefix.items():
        plain = name
        for ext in (".gz", ".bz2", ".xz"):
            if plain.endswith(ext):
                plain = plain[: -len(ext)]
        with open(os.path.join(e, plain), "w") as f:
            f.write(text)
        names.append(plain)
    argv = list(cmd) + list(fault.extra_opts) + io_args(fault.paired_mode, fault.fmt) + sorted(names)
    r = climon.run(e, argv, tag="exp", trace=False)
    if r.rc != 0:
        cache[key] = ("failed", r.err[-200:])
        return cache[key]
    out = [open(os.path.join(e, f)).read() if os.path.exists(os.path.join(e, f)) else None for f in out_names(fault.paired_mode, fault.fmt)]
    cache[key] = ("ok", out)
    return cache[key]


def out_names(mode, fmt, out_ext=""):
    ext = ("fq" if fmt == "fastq" else "fa") + out_ext
    if mode == "two":
        return [f"o1.{ext}", f"o2.{ext}"]
    return [f"o1.{ext}"]


def io_args(mode, fmt, out_ext=""):
    ext = ("fq" if fmt == "fastq" else "fa") + out_ext
    if mode == "two":
        return ["-o", f"o1.{ext}", "-p", f"o2.{ext}"]
    if mode == "interleaved":
        return ["--interleaved", "-o", f"o1.{ext}"]
    return ["-o", f"o1.{ext}"]


def records_of(text, fmt):
    if text is None:
        return None
    return fastx.parse_fastq(text, strict=False) if fmt == "fastq" else fastx.parse_fasta(text)


INFO_LINE = re.compile(r"^(This is cutadapt |Command line parameters: |Processing (single|paired)-end reads on \d+ cores? |Building index of |Built an index |"
                       r"Three errors and indels allowed|Indexing could take|If this becomes a problem)")


def error_lines(err):
    """Lines on standard error that are not the informational lines every run prints (they go to standard error, too,
    when the reads go to standard output)."""
    return [l for l in err.splitlines() if l.strip() and not INFO_LINE.match(l)]


def run_fault(ctx, d, fault, cores, bufsize, perturb, cache, state):
    cmd = fault.cmd or (CMD if fault.fmt == "fastq" else CMD_FA)
    w = os.path.join(d, "w")
    shutil.rmtree(w, ignore_errors=True)
    os.makedirs(w)
    for name, blob in fault.files.items():
        with open(os.path.join(w, name), "wb") as f:
            f.write(blob)
    argv = list(cmd) + list(fault.extra_opts)
    if cores > 1:
        argv += ["-j", str(cores), "--buffer-size", str(bufsize)]
    # in a quarter of the uncompressed single-file layouts the reads go to standard output (all messages then share
    # standard error with the informational lines)
    to_stdout = fault.paired_mode != "two" and not fault.out_ext and (zlib.crc32(fault.label.encode()) + cores + bufsize) % 4 == 0
    io = io_args(fault.paired_mode, fault.fmt, fault.out_ext)
    if to_stdout:
        io = io[:io.index("-o")] + io[io.index("-o") + 2:]
        ctx.count("runs_with_reads_on_standard_output")
    argv += io + sorted(fault.files)
    run = climon.run(w, argv, tag="run", trace=cores > 1, perturb=perturb, trace_reads=False, timeout=45)
    case = dict(cli=True, argv=argv, files={k: v.decode("latin-1") for k, v in fault.files.items()}, fault=fault.label, cores=cores,
                bufsize=bufsize, perturb=perturb, extra_opts=list(fault.extra_opts), cmd=fault.cmd)
    ctx.case((fault.label, tuple(sorted(fault.files.items())), cores, bufsize) if fault.malformed else None)
    ctx.count("runs")
    ctx.count("fault_class:" + fault.label.split("@")[0])
    ctx.count(f"cores:{cores}")
    viol = lambda kind, text: ctx.violation(kind, f"fault {fault.label} ({fault.detail}), cores={cores}, buffer-size={bufsize}, perturbation={perturb}: {text}; argv={argv}",
                                            case, facts=dict(fault=fault.label.split("@")[0], cores=cores, only_defect=fault.only_defect), klass=kind + fault.label.split("@")[0])
    if run.res.timed_out:
        state["timeouts"] += 1
        if run.res.deadlock:
            viol("hang", f"the run does not terminate: all processes asleep, no CPU consumed between samples ({run.res.procs})")
        else:
            ctx.mark_inconclusive(f"watchdog fired without a confirmed deadlock (fault {fault.label}, cores {cores})")
        return
    if fault.malformed:
        if run.rc == 0:
            viol("malformed-accepted", f"exit status 0 although the input is malformed; stderr={run.err[-150:]!r}")
        elif not error_lines(run.err):
            viol("no-error-message", f"exit status {run.rc} but no message on stderr beyond the informational lines: {run.err[-200:]!r}")
        if run.rc < 0:
            viol("killed-by-signal", f"terminated by signal {-run.rc}")
    else:
        ctx.count("wellformed_inputs")
        if run.rc != 0:
            # the statement does not promise that every well-formed input is accepted (exit 0 only IF well-formed):
            # recorded, and the run is still checked for a message and for the prefix property below
            ctx.count("wellformed_inputs_rejected")
            ctx.extra.setdefault("wellformed_rejected_example", (fault.label, cores, run.err.strip().splitlines()[-1][:160] if run.err.strip() else ""))
            if not error_lines(run.err):
                viol("no-error-message", f"exit status {run.rc} but no message on stderr beyond the informational lines: {run.err[-200:]!r}")
    # output content
    exp = expected_output(ctx, d, fault, cmd, cache)
    outs = []
    for f in out_names(fault.paired_mode, fault.fmt, fault.out_ext):
        p = os.path.join(w, f)
        if to_stdout:
            outs.append(run.out)
        elif not os.path.exists(p):
            outs.append(None)
        elif fault.out_ext:
            try:
                outs.append(fastx.decompress_file(p).decode("ascii", "replace"))
            except Exception:
                outs.append(None)   # an unfinished compressed stream after an error is not judged
        else:
            outs.append(open(p, errors="replace").read())
    parsed = []
    for text in outs:
        if text is None:
            parsed.append(None)
            continue
        try:
            parsed.append(records_of(text, fault.fmt))
        except fastx.ParseError as e:
            parsed.append(None)
            viol("output-broken-record", f"output does not parse completely ({e}): records written before the error must be complete; tail={text[-80:]!r}")
    if exp is None or exp[0] != "ok":
        if exp is not None:
            ctx.count("expected_output_unavailable")
        return
    for text, got, etext in zip(outs, parsed, exp[1]):
        if got is None:
            if run.rc == 0:
                viol("output-missing", "exit status 0 but an output file is missing")
            continue
        erecs = records_of(etext, fault.fmt) or []
        if run.rc == 0:
            if got != erecs:
                viol("silent-loss", f"exit status 0 but the output has {len(got)} records, the well-formed input yields {len(erecs)}")
        else:
            if got != erecs[:len(got)]:
                viol("output-not-prefix", f"records written before the error are not a prefix of the correct output: {got[:3]} vs {erecs[:3]}")
    if cores > 1 and run.rc != 0:
        ctx.count("multicore_failures_observed")


def run_shard(ctx):
    rng = ctx.rng("c12")
    thorough = ctx.tier == "thorough"
    d = os.path.join(ctx.scratch, "c12")
    os.makedirs(d, exist_ok=True)
    state = dict(timeouts=0)
    n_sets = ctx.scale(1, 4)
    for s in range(n_sets):
        cache = {}
        faults = list(make_faults(ctx, rng, thorough))
        # the shards share the enumeration: shard i takes every nshards-th fault of its own data set
        for fi, fault in enumerate(faults):
            if ctx.out_of_time():
                ctx.count("stopped_on_time_budget")
                return
            if state["timeouts"] >= 3:
                ctx.mark_inconclusive("three runs exceeded the watchdog; shard stopped early")
                return
            if not thorough and fi % 2 != ctx.shard % 2 and not fault.label.startswith(("corrupt", "mate", "interleaved-odd", "interleaved-fasta", "truncate-big", "trailing-blank")):
                continue
            size = sum(len(b) for b in fault.files.values())
            combos = [(1, 0, None)]
            # the (hidden) buffer size must hold at least one record (pair); 400 bytes is several times the largest record here
            bufs = [max(400, size // 4), max(400, size // 2), 100000]
            if fault.label.startswith(("truncate-big", "corrupt-big")):
                bufs = [20000, 8000, 60000]
            if fault.force_buf:
                combos += [(2, fault.force_buf, None), (3, fault.force_buf, 1)]
            elif thorough:
                combos += [(2, bufs[0], 1), (3, bufs[1], 2), (2, bufs[2], None)]
            else:
                combos += [(rng.choice([2, 3]), rng.choice(bufs), rng.choice([None, 1, 2]))]
            for cores, bufsize, perturb in combos:
                run_fault(ctx, d, fault, cores, bufsize, perturb, cache, state)
    shutil.rmtree(d, ignore_errors=True)


def verdict_hook(merged, tier):
    c = merged["counters"]
    out = []
    if not c.get("multicore_failures_observed"):
        out.append("no failing multi-core run was observed")
    if c.get("wellformed_inputs_rejected", 0) > 0.5 * max(1, c.get("wellformed_inputs", 0)):
        out.append(f"{c.get('wellformed_inputs_rejected')} of {c.get('wellformed_inputs')} well-formed inputs were rejected: the failure oracle would be vacuous")
    return out


def replay(ctx, case):
    d = os.path.join(ctx.scratch, "replay")
    os.makedirs(d, exist_ok=True)
    files = {k: v.encode("latin-1") for k, v in case["files"].items()}
    mode = "two" if "in2.fq" in files else ("interleaved" if "inter.fq" in files else None)
    fmt = "fasta" if any(k.endswith(".fa") for k in files) else "fastq"
    # ground truth is re-derived for plain FASTQ single-end faults; other faults replay the execution only
    malformed = True
    if mode is None and fmt == "fastq" and "in1.fq" in files:
        pref, wf = wf_prefix_fastq(files["in1.fq"].decode("latin-1"))
        f = Fault(case["fault"], files, None, not wf, {"in1.fq": pref})
    else:
        f = Fault(case["fault"], files, mode, "truncate-fasta" not in case["fault"] and case["fault"] != "gzip-empty", None, fmt=fmt)
    f.extra_opts, f.cmd = case.get("extra_opts") or [], case.get("cmd")
    run_fault(ctx, d, f, case["cores"], case["bufsize"], case["perturb"], {}, dict(timeouts=0))
