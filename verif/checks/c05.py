"""C05 - paired-end outputs stay synchronized and pairs are filtered as a unit."""
import os
import shutil

from .. import climon, fastx, filtermon as F

ID = "C05"
LEVEL = "exploration"
ENGINES = ["climon"]
TECHNIQUE = "offline checker over every pair of output files / interleaved file (record-by-record pairing and order by unique pair id) + reference pair decision (documented any/both/first table) on a filter-free baseline run"
LEVEL_TEXT = ("Real paired-end runs (two files and interleaved, all filter/redirect options, demultiplexing, 1-3 cores). For every pair of "
              "output files: equal record counts, record k of R1 and R2 carry the same pair id, order = input order, every pair in exactly one "
              "destination or none. The destination must equal the reference pair decision: per-mate reference predicates on the baseline "
              "records combined by the documented table (any/both/first; a one-sided LEN: or :LEN2 bound looks at that side only; 'both' forced "
              "for the untrimmed filters when adapters exist for one side only). With --pair-adapters both mates carry matches of the same rank "
              "or both are unmatched and equal the records of a run without adapters.")
LEVEL_TEXT += " Paired --revcomp scenarios (mates of about half of the pairs exchanged in the input; the reference is read off the records of a filter-free run: ' rc' in the name, lengths) and adapters named 'unknown' under demultiplexing."
LEVEL_TEXT += ' --pair-adapters with --action=lowercase on lower-case reads (pairs without a match of one rank come out as they went in).'
LEVEL_NOTE = ("Trusted base: independent parser, unique pair ids, refmodel predicates and the combination table written from the guide; the "
              "baseline run gives each mate's processed record and last-match name.")
VARIANTS = {"quick": ["plain"], "thorough": ["plain"]}
BUDGET_S = {"quick": 150, "thorough": 3000}
FLOORS = {"quick": 2000, "thorough": 60000}
RULE = ("Seeded random paired scenarios. Non-trivial = the pair decision involved a filter whose two per-mate predicates are both looked at "
        "(any/both/first matters), a one-sided bound, a redirect, or --pair-adapters; distinct by (filter arguments, both processed records).")
ASSUMPTIONS = ["pair ids are unique and shared by both mates", "borderline expected-error comparisons are skipped and counted"]


def evaluate(ctx, sc, d):
    run, case, argv = sc.run, sc.case, sc.argv
    viol = lambda kind, text, **facts: ctx.violation(kind, f"{text}; filter args={sc.fargs} argv={argv}", case, facts=facts, klass=kind)
    if run.rc != 0:
        if "Traceback" in run.err:
            # the option set is valid (the generator only builds documented combinations): an internal error is not a refusal
            viol("run-crashed", f"exit {run.rc} with a traceback: {run.err.strip().splitlines()[-1][:200]}")
            return
        ctx.count("runs_failed")
        ctx.extra.setdefault("failed_example", (argv, run.err[-300:]))
        return
    for kind, text in sc.problems:
        viol(kind, text)
    index = {key: i for i, key in enumerate(sc.order)}
    for dest, (r1, r2) in sc.files.items():
        if r1 is None or r2 is None or r1[0] == "error" or r2[0] == "error":
            viol("output-file", f"paired output for {dest} missing or unparseable: {r1 if r1 is None or r1[0] == 'error' else r2}")
            return
        ids1 = [fastx.rid(x[0]) for x in r1[1]]
        ids2 = [fastx.rid(x[0]) for x in r2[1]]
        if len(ids1) != len(ids2):
            viol("unequal-counts", f"{dest}: {len(ids1)} R1 records, {len(ids2)} R2 records")
        elif ids1 != ids2:
            k = next(i for i, (a, b) in enumerate(zip(ids1, ids2)) if a != b)
            viol("mates-out-of-sync", f"{dest}: record {k} is {ids1[k]} in R1 but {ids2[k]} in R2")
        pos = [index.get(i, -1) for i in ids1]
        if pos != sorted(pos):
            viol("order-changed", f"{dest}: pairs not in input order: {ids1[:12]}")
        # mates come from the right input file
        base2 = {fastx.rid(b["name"]): b for b in sc.base[2]}
        base1 = {fastx.rid(b["name"]): b for b in sc.base[1]}
        for a, b in zip(r1[1], r2[1]):
            ka = fastx.rid(a[0])
            if ka in base1 and ((a[1], a[2]) != (base1[ka]["seq"], base1[ka]["qual"]) or (fastx.rid(b[0]) in base2 and (b[1], b[2]) != (base2[fastx.rid(b[0])]["seq"], base2[fastx.rid(b[0])]["qual"]))):
                viol("mate-record-differs", f"{dest}: pair {ka} written as ({a[1]!r}, {b[1]!r}), processed records are ({base1[ka]['seq']!r}, {base2.get(fastx.rid(b[0]), {}).get('seq')!r})")
                break
    # pair decision
    one_sided = any(":" in sc.fopts.get(x, "") and (sc.fopts[x].startswith(":") or sc.fopts[x].endswith(":")) for x in ("m", "M"))
    forced_both = (not sc.ads1 or not sc.ads2) and (sc.fopts.get("discard_untrimmed") or sc.fopts.get("untrimmed_output"))
    for idx, key in enumerate(sc.order):
        fate = sc.fates[key]
        b1, b2 = sc.base[1][idx], sc.base[2][idx]
        dests = sc.membership.get(key, [])
        if fate == "skip":
            ctx.case(None)
            continue
        nontrivial = fate != "out" or one_sided or forced_both or sc.pair_adapters
        ctx.case((" ".join(sc.fargs), b1["seq"], b1["qual"], b2["seq"], b2["qual"], b1["trimmed"], b2["trimmed"], fate) if nontrivial else None)
        ctx.count("pair_fate:" + (fate if not fate.startswith("demux:") else "demux"))
        expect = fate if fate in sc.layout else ("out" if fate == "out" else None)
        if len(dests) > 1:
            viol("pair-in-two-destinations", f"pair {key} found in {dests}")
        elif expect is None and dests:
            viol("pair-decision", f"pair {key}: reference decision {fate} (discard) but written to {dests}; R1={b1['seq']!r}/{b1['trimmed']} R2={b2['seq']!r}/{b2['trimmed']} "
                 f"pair-filter={sc.fopts.get('pair_filter')}", fate=fate, mode=sc.fopts.get("pair_filter"), forced_both=bool(forced_both))
        elif expect is not None and dests != [expect]:
            viol("pair-decision", f"pair {key}: reference decision {fate} -> {expect}, found in {dests or 'no file'}; R1={b1['seq']!r} (len {len(b1['seq'])}, trimmed {b1['trimmed']}) "
                 f"R2={b2['seq']!r} (len {len(b2['seq'])}, trimmed {b2['trimmed']}) pair-filter={sc.fopts.get('pair_filter')} adapters R1/R2={len(sc.ads1)}/{len(sc.ads2)}",
                 fate=fate, mode=sc.fopts.get("pair_filter"), forced_both=bool(forced_both))
    if one_sided:
        ctx.count("runs_with_one_sided_bound")
    if forced_both:
        ctx.count("runs_with_forced_both")
    # --pair-adapters: same rank or neither
    if sc.pair_adapters:
        ctx.count("pair_adapters_runs")
        argv0 = sc.mods + ["-o", "n1.fq", "-p", "n2.fq"] + sc.inputs
        r0 = climon.run(d, argv0, tag="noad", trace=False)
        n1 = r0.records("n1.fq") if r0.rc == 0 else None
        n2 = r0.records("n2.fq") if r0.rc == 0 else None
        pre1 = {fastx.rid(x[0]): x for x in n1[1]} if n1 and n1[0] != "error" else {}
        pre2 = {fastx.rid(x[0]): x for x in n2[1]} if n2 and n2[0] != "error" else {}
        for b1, b2 in zip(sc.base[1], sc.base[2]):
            key = fastx.rid(b1["name"])
            if b1["trimmed"] != b2["trimmed"]:
                viol("pair-adapters-one-mate", f"pair {key}: R1 match {b1['adapter']}, R2 match {b2['adapter']}")
            elif b1["trimmed"]:
                n1, n2 = [a["name"] for a in sc.ads1], [a["name"] for a in sc.ads2]
                if b1["adapter"] not in n1 or b2["adapter"] not in n2 or n1.index(b1["adapter"]) != n2.index(b2["adapter"]):
                    viol("pair-adapters-rank", f"pair {key}: R1 trimmed by {b1['adapter']}, R2 by {b2['adapter']} (different rank)")
            elif key in pre1 and key in pre2:
                if (b1["seq"], b2["seq"]) != (pre1[key][1], pre2[key][1]):
                    viol("pair-adapters-changed-unmatched", f"pair {key}: no adapter pair found but reads changed: ({pre1[key][1]!r},{pre2[key][1]!r}) -> ({b1['seq']!r},{b2['seq']!r})")


def one_case(ctx, k):
    rng = ctx.rng("c05", k)
    d = os.path.join(ctx.scratch, f"c{k}")
    os.makedirs(d, exist_ok=True)
    try:
        demux = rng.choice([None, None, None, None, "normal", "combinatorial"]) if ctx.tier == "thorough" or k % 3 == 0 else None
        sc = F.observe(ctx, rng, d, dict(demux=demux, trace=False, paired_p=1.0, interleaved_p=0.25, mixed_layout_p=0.25, revcomp_p=0.15, unknown_name_p=0.12 if demux else 0.0, pair_adapters_lowercase_p=0.35))
        if sc is None:
            return
        sc.case["k"] = k
        ctx.count("runs")
        if sc.interleaved_out:
            ctx.count("interleaved_output_runs")
        ctx.count(f"cores:{sc.cores}")
        if getattr(sc, "revcomp", False):
            ctx.count("revcomp_runs")
            ctx.count("revcomp_pairs_swapped_and_trimmed", sum(1 for a, b in zip(sc.base[1], sc.base[2]) if a["swapped"] and (a["trimmed"] or b["trimmed"])))
        evaluate(ctx, sc, d)
        ctx.sample(dict(argv=sc.argv, fates={f: list(sc.fates.values()).count(f) for f in set(sc.fates.values())}), limit=5)
    finally:
        shutil.rmtree(d, ignore_errors=True)


def run_shard(ctx):
    for k in range(ctx.scale(90, 3000)):
        if ctx.out_of_time():
            ctx.count("stopped_on_time_budget")
            break
        one_case(ctx, ctx.shard * 100000 + k)
    # pair decisions for the quality-based criteria under both quality encodings (definition-based, shared with C14)
    from . import c14
    for k in range(ctx.scale(8, 120)):
        c14.cli_pair_case(ctx, ctx.shard * 100000 + 70000 + k)


def verdict_hook(merged, tier):
    c = merged["counters"]
    if c.get("runs", 0) and (c.get("runs_failed", 0) + c.get("baseline_failed", 0)) > 0.2 * c["runs"]:
        return [f"{c.get('runs_failed', 0)}+{c.get('baseline_failed', 0)} of {c['runs']} runs exited non-zero: {merged['extra'].get('failed_example', [''])[0]}"]
    return []


def replay(ctx, case):
    ctx.shard = case["k"] // 100000
    if case.get("kind") == "clipair":
        from . import c14
        c14.cli_pair_case(ctx, case["k"])
        return
    one_case(ctx, case["k"])
