"""C07 - the k-mer prefilter never changes which adapter match is found."""
from .. import alnmon as M

ID = "C07"
LEVEL = "exploration"
ENGINES = ['alnmon', 'sanrun']
TECHNIQUE = 'differential observer (real prefilter vs always-true finder on the same adapter object) + ASan/UBSan on _kmer_finder'
LEVEL_TEXT = "Two real executions per case on the same adapter object - with its k-mer finder and with an always-true finder - must agree exactly; the same workload (biased to reads shorter than the adapter) runs on an ASan+UBSan build in both tiers, where any report is a violation because the prefilter's verdict would then depend on memory outside the read."
LEVEL_TEXT += ' Adapter lengths x absolute error numbers that round down in double precision (49/1, 47/3, 98/2, ...) are generated.'
LEVEL_TEXT += ' Adapters with characters that are no IUPAC code under -N (they equal a read N when read wildcards are on).'
LEVEL_NOTE = "Trusted base: swapping the kmer_finder attribute is equivalent to 'alignment alone'; red-zone sanitizers miss far out-of-bounds reads. Adapters whose finder is the fallback are counted as trivial."
VARIANTS = {"quick": ["plain", "asan"], "thorough": ["plain", "asan"]}
BUDGET_S = {"quick": 120, "thorough": 2400}
FLOORS = {"quick": 8000, "thorough": 300000}
EXHAUSTIVE = {"thorough": "all adapters over {A,C} of length<=4 x 8 types x rates {0,.25,.34,.5} x overlaps x indels "
                          "x all reads over {A,C} of length<=6 (in addition to the random workload)"}
RULE = ("Differential observer on the same adapter object: match_to(read) with its real KmerFinder and with the "
        "always-true finder swapped in must give the identical result (class and 6-tuple, or both None). Workload as "
        "C01 plus reads shorter than the adapter / lying inside it, adapters up to 70 nt (64-bit word boundary and the "
        "fallback finder). The asan variant runs the same calls on a clang ASan+UBSan build of the extension modules; "
        "a report whose stack is in _kmer_finder means the prefilter's verdict depends on memory outside the read. "
        "Non-trivial = the adapter has a real KmerFinder and (alignment alone finds a match, or the read is shorter "
        "than the adapter so that a search window must be clipped); distinct by (configuration, read).")
ASSUMPTIONS = [
    "replacing the kmer_finder attribute by an object whose kmers_present() is always True is 'the full alignment alone'",
    "adapters whose finder is already the fallback (anchored without indels, k-mers longer than 64) are counted as trivial",
    "a clean ASan/UBSan run means no report on the calls made, not memory safety",
]


def one(ctx, cfg, ad, read):
    real = M.has_real_prefilter(ad)
    try:
        m1 = ad.match_to(read)
        m0 = M.match_without_prefilter(ad, read)
    except Exception as e:
        ctx.case(("exc", str(cfg), read))
        ctx.violation("exception", f"match_to raised {type(e).__name__}: {e}", M.case_dict(cfg, read))
        return
    if not real:
        ctx.count("fallback_finder")
        ctx.case(None)
        return
    nontrivial = m0 is not None or len(read) < len(ad.sequence)
    key = (cfg["type"], cfg["seq"], cfg["max_errors"], cfg["min_overlap"], cfg["aw"], cfg["rw"], cfg["indels"],
           cfg.get("fa"), read)
    ctx.case(key if nontrivial else None)
    if m0 is not None:
        ctx.count("alignment_alone_matches:" + cfg["type"])
    if len(read) < len(ad.sequence):
        ctx.count("read_shorter_than_adapter")
    same = (m1 is None and m0 is None) or (m1 is not None and m0 is not None and type(m1) is type(m0)
                                            and M.match_tuple(m1) == M.match_tuple(m0))
    if same:
        if m0 is not None:
            ctx.sample(dict(cfg=cfg, read=read, match=M.match_tuple(m0)))
        return
    if m1 is None:
        ctx.violation(
            "prefilter-lost-match",
            f"alignment alone finds {M.match_tuple(m0)} but match_to() with the prefilter returns None; "
            f"adapter={ad!r} read={read!r} fa={cfg.get('fa')} windows={getattr(getattr(ad.kmer_finder, 'kmer_finder', ad.kmer_finder), 'positions_and_kmers', None)}",
            M.case_dict(cfg, read), facts=M.prefilter_facts(cfg, ad, read, m0),
            klass=cfg["type"] + str(bool(cfg.get("fa"))))
    elif m0 is None:
        ctx.violation("prefilter-only-match", f"match {M.match_tuple(m1)} only with the prefilter?! adapter={ad!r} read={read!r}",
                      M.case_dict(cfg, read), facts=dict(type=cfg["type"]))
    else:
        ctx.violation("prefilter-different-match",
                      f"with prefilter {M.match_tuple(m1)}, without {M.match_tuple(m0)}; adapter={ad!r} read={read!r}",
                      M.case_dict(cfg, read), facts=dict(type=cfg["type"]))


def run_shard(ctx):
    asan = ctx.variant == "asan"
    n_cfg = ctx.scale(3500, 70000) if not asan else ctx.scale(1200, 12000)
    rng = ctx.rng("c07")
    for i in range(n_cfg):
        if ctx.out_of_time():
            ctx.count("stopped_on_time_budget")
            break
        cfg = M.gen_config(rng, long_adapters=True, very_long=0.04, odd_chars=0.04)
        if (len(cfg["seq"]), cfg["max_errors"]) in M.ROUNDING_PAIRS:
            ctx.count("configs_where_errors_times_length_rounds_down")
        ad = M.build(cfg)
        if ad is None:
            ctx.count("config_rejected_or_out_of_domain")
            if asan and ctx.san_check(None):
                # constructing an adapter outside the stated domain (rate >= 1) made the sanitizer
                # speak: recorded, but not a verdict on this property
                v = ctx.violations.pop()
                ctx.violation_counts["sanitizer"] -= 1
                ctx.count("sanitizer_report_out_of_domain_config")
                ctx.extra.setdefault("out_of_domain_sanitizer", v["detail"][:300])
            continue
        if asan:
            ctx.san_check(lambda: dict(cfg, read=None, at="construction"))
        for _ in range(8):
            read = M.gen_read(rng, cfg, ad.sequence, short_bias=True)
            one(ctx, cfg, ad, read)
            if asan:
                ctx.san_check(lambda: M.case_dict(cfg, read))
    if ctx.tier == "thorough" and not asan:
        reads = list(M.exhaustive_reads(6))
        for cfg in M.exhaustive_configs(ctx.shard, ctx.nshards):
            ad = M.build(cfg)
            if ad is None:
                continue
            ctx.count("exhaustive_configs")
            for read in reads:
                one(ctx, cfg, ad, read)


def replay(ctx, case):
    cfg = {k: v for k, v in case.items() if k != "read"}
    ad = M.build(cfg)
    if ad is None:
        ctx.mark_inconclusive("configuration rejected")
        return
    one(ctx, cfg, ad, case["read"])
    ctx.san_check(case)
