"""C01 - every reported adapter match is a genuine, in-tolerance occurrence."""
from .. import alnmon as M

ID = "C01"
LEVEL = "exploration"
ENGINES = ['alnmon', 'climon', 'sanrun']
TECHNIQUE = 'reference-model monitor (edit distance / placement oracle) on every match_to() result + ASan/UBSan run'
LEVEL_TEXT = "Every match returned by the real match_to() on ~10^5 (quick) to ~10^7 (thorough, plus a small exhaustive scope) generated (configuration, read) pairs is re-derived by an independent oracle; 'held' means no reported match on the executions observed violated bounds, placement, overlap, exact error count or tolerance. Exploration is the right level: the input space is unbounded and only executions are observed."
LEVEL_TEXT += ' Rounds nine/ten: adapter lengths and absolute error numbers whose product rounds down in double precision; adapters of 21480-30000 nt with indels disabled (interval lengths agree, error count is the Hamming distance).'
LEVEL_TEXT += ' The other anchored adapters of the command-line part may carry their own indel setting (one indexed group with and without indels).'
LEVEL_NOTE = "Trusted base: verif/refmodel.py (wildcard relation, unit-cost edit distance, placement table), the workload generator's diversity, CPython. Effective error rates >= 1 are outside the domain. Score is not judged."
VARIANTS = {"quick": ["plain", "asan"], "thorough": ["plain", "asan"]}
BUDGET_S = {"quick": 120, "thorough": 2400}
FLOORS = {"quick": 8000, "thorough": 300000}
EXHAUSTIVE = {"thorough": "all adapters over {A,C} of length<=4 x 8 types x rates {0,.25,.34,.5} x overlaps x indels "
                          "x all reads over {A,C} of length<=6 (in addition to the random workload)"}
RULE = ("Seeded random (adapter configuration, read) pairs: 8 adapter types (+ ;anywhere), IUPAC/AC/ACGT adapters of "
        "1-20 nt (thorough: to 70), rates 0..0.9 and absolute error numbers, min-overlap 1..len, -N, "
        "--match-read-wildcards, indels on/off; reads random or with a planted, mutated, truncated occurrence. "
        "Every return value of the real match_to() is checked against the reference model "
        "(bounds, placement by type, min overlap, errors == reference edit/Hamming distance, tolerance). "
        "Non-trivial = a match was reported; distinct by (configuration, read).")
ASSUMPTIONS = [
    "refmodel.make_eq is the documented wildcard relation; refmodel.edit_distance is unit-cost edit distance",
    "adapters with an effective error rate >= 1 are outside the stated domain and skipped",
    "a clean ASan/UBSan run means no report on the calls made, not memory safety",
]


def one(ctx, cfg, ad, read):
    try:
        mt = ad.match_to(read)
    except Exception as e:
        ctx.case(("exc", str(cfg), read))
        ctx.violation("exception", f"match_to raised {type(e).__name__}: {e}", M.case_dict(cfg, read))
        return
    if mt is None:
        ctx.case(None)
        return
    ctx.case((cfg["type"], cfg["seq"], cfg["max_errors"], cfg["min_overlap"], cfg["aw"], cfg["rw"], cfg["indels"],
              cfg.get("fa"), read))
    ctx.count("match:" + cfg["type"] + (";anywhere" if cfg.get("fa") else ""))
    if mt.errors:
        ctx.count("match_with_errors")
    if (mt.astop - mt.astart) != (mt.rstop - mt.rstart):
        ctx.count("match_with_indel")
    if mt.astop - mt.astart < len(ad.sequence):
        ctx.count("match_partial")
    if ad.adapter_wildcards or ad.read_wildcards:
        ctx.count("match_wildcards")
    ctx.sample(dict(cfg=cfg, read=read, match=M.match_tuple(mt)))
    for clause, text in M.check_reported_match(cfg, ad, read, mt):
        ctx.violation(clause, f"{text}; adapter={ad!r} read={read!r} match={M.match_tuple(mt)}",
                      M.case_dict(cfg, read), facts=dict(type=cfg["type"], indels=cfg["indels"]), klass=cfg["type"])


def long_no_indels_probe(ctx, k):
    """Adapters of tens of thousands of bases with indels disabled (the cost of a disabled indel times the adapter length
    leaves the 32-bit range beyond 21474 nt): interval lengths agree and the error count is the Hamming distance."""
    import cutadapt.adapters as A

    rng = ctx.rng("c01long", k)
    typ = ("back", "front")[k % 2]
    m = (22000, 30000, 21480, 25000)[(k // 2) % 4]
    a = "".join(rng.choice("ACGT") for _ in range(m))
    copy = list(a)
    for p in rng.sample(range(m), m // 80):
        copy[p] = rng.choice([c for c in "ACGT" if c != copy[p]])
    left = "".join(rng.choice("ACGT") for _ in range(rng.randint(0, 6)))
    right = "".join(rng.choice("ACGT") for _ in range(rng.randint(0, 6)))
    shifted = (k // 8) % 2 == 1
    if shifted:
        # one base missing in the middle: no admissible occurrence without indels, anything reported must still be genuine
        del copy[m // 2 + rng.randint(-500, 500)]
    read = left + "".join(copy) + right
    cls = A.BackAdapter if typ == "back" else A.FrontAdapter
    ad = cls(a, max_errors=0.1, indels=False, min_overlap=m // 2)
    mt = ad.match_to(read)
    case = dict(kind="long", k=k)
    ctx.case(("long", typ, m, k))
    ctx.count("adapters_longer_than_21474_without_indels")
    if mt is None and shifted:
        return
    if mt is None:
        ctx.violation("long-missed", f"{typ} adapter of {m} nt, --no-indels: a copy with {m // 80} substitutions was not found", case, klass="long")
        return
    la, lr = mt.astop - mt.astart, mt.rstop - mt.rstart
    ok_bounds = 0 <= mt.astart <= mt.astop <= m and 0 <= mt.rstart <= mt.rstop <= len(read)
    d = sum(1 for x, y in zip(a[mt.astart:mt.astop], read[mt.rstart:mt.rstop]) if x != y) if ok_bounds and la == lr else None
    if not ok_bounds or la != lr or mt.errors != d or mt.errors > 0.1 * la:
        ctx.violation("no-indels-length" if la != lr else "error-count",
                      f"{typ} adapter of {m} nt, --no-indels: adapter interval [{mt.astart},{mt.astop}), read interval [{mt.rstart},{mt.rstop}), "
                      f"reported errors {mt.errors}, Hamming distance of the intervals {d}", case, klass="long")


def run_shard(ctx):
    asan = ctx.variant == "asan"
    if not asan and (ctx.tier == "thorough" or ctx.shard < 4 or ctx.shard in (8, 10)):
        long_no_indels_probe(ctx, ctx.shard)
    n_cfg = ctx.scale(4000, 80000) if not asan else ctx.scale(300, 6000)
    rng = ctx.rng("c01")
    for i in range(n_cfg):
        if ctx.out_of_time():
            ctx.count("stopped_on_time_budget")
            break
        cfg = M.gen_config(rng, long_adapters=True if ctx.tier == "thorough" else 0.12)
        ad = M.build(cfg)
        if ad is None:
            ctx.count("config_rejected_or_out_of_domain")
            if asan and ctx.san_check(None):
                # constructing an adapter outside the stated domain (rate >= 1) made the sanitizer
                # speak: recorded, but not a verdict on this property
                v = ctx.violations.pop()
                ctx.violation_counts["sanitizer"] -= 1
                ctx.count("sanitizer_report_out_of_domain_config")
                ctx.extra.setdefault("out_of_domain_sanitizer", v["detail"][:300])
            continue
        if asan:
            ctx.san_check(lambda: dict(cfg, read=None, at="construction"))
        ap = M.attr_problems(cfg, ad)
        if ap:
            ctx.case(("attrs", str(cfg)))
            ctx.violation("adapter-attributes", "; ".join(ap) + f"; adapter={ad!r}", M.case_dict(cfg, None), klass=cfg["type"])
        for _ in range(8):
            read = M.gen_read(rng, cfg, ad.sequence, short_bias=asan)
            one(ctx, cfg, ad, read)
            if asan:
                ctx.san_check(lambda: M.case_dict(cfg, read))
    if not asan:
        for k in range(ctx.scale(10, 200)):
            cli_case(ctx, ctx.shard * 100000 + k)
    if ctx.tier == "thorough" and not asan:
        reads = list(M.exhaustive_reads(6))
        for cfg in M.exhaustive_configs(ctx.shard, ctx.nshards):
            ad = M.build(cfg)
            if ad is None:
                continue
            ctx.count("exhaustive_configs")
            for read in reads:
                one(ctx, cfg, ad, read)


SPEC = dict(back="{s}", front="{s}", prefix="^{s}", suffix="{s}$", nfront="X{s}", nback="{s}X", anywhere="{s}", rightmost="{s};rightmost")
FLAG = dict(back="-a", front="-g", prefix="-g", suffix="-a", nfront="-g", nback="-a", anywhere="-b", rightmost="-g")


def cli_case(ctx, k):
    """Columns 2-7 of --info-file for single-adapter command-line runs, judged by the same oracle (the adapter interval
    is not in the file: some interval that the type admits must explain the row)."""
    import os
    import shutil
    from .. import climon, fastx, refmodel as R

    rng = ctx.rng("c01cli", k)
    cfg = M.gen_config(rng, allow_force_anywhere=False)
    cfg["seq"] = cfg["seq"].upper().replace("U", "T")
    if cfg["max_errors"] >= 1:
        cfg["max_errors"] = 0.2
    if M.build(cfg) is None:
        return
    aseq = R.normalize_adapter(cfg["seq"])
    d = os.path.join(ctx.scratch, f"cli{k}")
    os.makedirs(d, exist_ok=True)
    try:
        recs = []
        for i in range(30):
            s = M.gen_read(rng, cfg, aseq)
            recs.append((f"r{i}", s, "I" * len(s)))
        inputs = climon.write_inputs(d, recs)
        argv = [FLAG[cfg["type"]], "main=" + SPEC[cfg["type"]].format(s=cfg["seq"]), "-e", repr(cfg["max_errors"]), "-O", str(cfg["min_overlap"]),
                "--info-file", "info.tsv", "-o", "out.fq"]
        others = {}
        if cfg["type"] in ("prefix", "suffix") and rng.random() < 0.6:
            # further anchored adapters of the same kind with their own lengths and tolerances (an index is built when
            # all of them can be indexed); reads carrying damaged copies of them are added
            for j in range(rng.randint(1, 3)):
                oseq = M.rnd_seq(rng, rng.randint(4, 20), "ACGT")
                orate = rng.choice([0, 0.05, 0.1, 0.2, 0.3])
                # now and then with its own indel setting (an index may hold adapters with and without indels)
                oind = cfg["indels"] if rng.random() < 0.6 else (not cfg["indels"])
                others[f"x{j}"] = (oseq, orate, oind)
                pair = [FLAG[cfg["type"]], f"x{j}=" + SPEC[cfg["type"]].format(s=oseq) + f";e={orate}" + ("" if oind == cfg["indels"] else (";indels" if oind else ";noindels"))]
                argv = (pair + argv) if rng.random() < 0.5 else (argv[:2] + pair + argv[2:])
                for i in range(8):
                    core = M.mutate(rng, oseq, rng.choice([0, 1, 1, 2, 3]), "ACGT", cfg["indels"] or oind or rng.random() < 0.5)
                    flank = M.rnd_seq(rng, rng.randint(0, 10), "ACGT")
                    s_ = core + flank if cfg["type"] == "prefix" else flank + core
                    recs.append((f"o{j}_{i}", s_, "I" * len(s_)))
                # a copy with N where the adapter has an A, directly followed by the clean copy (a lookup structure that
                # remembers results must not let the first read colour the second)
                apos = [p_ for p_, ch in enumerate(oseq) if ch == "A"]
                if apos:
                    p_ = rng.choice(apos)
                    flank = M.rnd_seq(rng, rng.randint(2, 8), "ACGT")
                    for tag_, core in (("n", oseq[:p_] + "N" + oseq[p_ + 1:]), ("c", oseq)):
                        s_ = core + flank if cfg["type"] == "prefix" else flank + core
                        recs.append((f"o{j}_{tag_}", s_, "I" * len(s_)))
            inputs = climon.write_inputs(d, recs)
            ctx.count("cli_runs_with_several_anchored_adapters")
        if not cfg["aw"]:
            argv.append("-N")
        if cfg["rw"]:
            argv.append("--match-read-wildcards")
        if not cfg["indels"]:
            argv.append("--no-indels")
        if rng.random() < 0.3:
            # an adapter file with parameters of its own in front: they hold for the file's adapters only
            with open(os.path.join(d, "other.fasta"), "w") as f:
                f.write(">f1\n" + M.rnd_seq(rng, 25, "ACGT") + "\n>f2\n" + M.rnd_seq(rng, 31, "ACGT") + "\n")
            argv = [rng.choice(["-a", "-g"]), "file:other.fasta;" + rng.choice(["e=0.4;o=2", "e=0.45;noindels", "o=1;e=0.35;indels"])] + argv
            ctx.count("cli_runs_after_parameterised_file")
        run = climon.run(d, argv + inputs, trace=False)
        ctx.count("cli_runs")
        if run.rc != 0:
            ctx.count("cli_runs_failed")
            return
        case = climon.case_record(argv + inputs, d, inputs)
        case["cli_k"] = k
        eq = R.make_eq(cfg["aw"] and not set(aseq) <= set("ACGT"), cfg["rw"])
        aw = cfg["aw"] and not set(aseq) <= set("ACGT")
        m = len(aseq)
        want = m if cfg["type"] in ("prefix", "suffix") else min(cfg["min_overlap"], m)
        reads = {fastx.rid(r[0]): r[1] for r in recs}
        with open(os.path.join(d, "info.tsv")) as f:
            for line in f:
                col = line.rstrip("\n").split("\t")
                if len(col) < 8 or col[1] == "-1":
                    ctx.case(None)
                    continue
                read = reads[fastx.rid(col[0])]
                err, r0, r1 = int(col[1]), int(col[2]), int(col[3])
                if col[7] in ("f1", "f2"):
                    ctx.count("rows_of_file_adapters_not_judged")
                    ctx.case(None)
                    continue
                if col[7] != "main":
                    # a row of one of the other anchored adapters: judged with that adapter's sequence and tolerance
                    oseq, orate, oind = others[col[7]]
                    ctx.case(("cli-other", str(argv), read))
                    n = len(read)
                    ok_place = (r0 == 0) if cfg["type"] == "prefix" else (r1 == n)
                    dist = R.edit_distance(oseq, read[r0:r1], R.make_eq(False, cfg["rw"])) if oind else (R.hamming(oseq, read[r0:r1], R.make_eq(False, cfg["rw"])) if len(oseq) == r1 - r0 else None)
                    if not (0 <= r0 <= r1 <= n) or not ok_place or dist != err or err > orate * len(oseq):
                        ctx.violation("cli-row-unexplained", f"info row for adapter {col[7]} ({oseq}, e={orate}): errors={err} start={r0} end={r1} on read {read!r}; "
                                      f"distance of the full adapter to that stretch is {dist}, tolerance {orate * len(oseq):.2f}; argv={argv}", case, klass="other" + cfg["type"])
                    continue
                ctx.case(("cli", str(argv), read))
                ctx.count("cli_match_rows")
                n = len(read)
                if not (0 <= r0 <= r1 <= n) or col[4] + col[5] + col[6] != read or col[5] != read[r0:r1]:
                    ctx.violation("bounds", f"info row {col[:7]} does not lie inside read {read!r}; argv={argv}", case)
                    continue
                explained = False
                for a0 in range(0, m + 1):
                    for a1 in range(a0, m + 1):
                        if a1 - a0 < want or not R.placement_ok(cfg["type"], m, n, a0, a1, r0, r1):
                            continue
                        if not cfg["indels"] and (a1 - a0) != (r1 - r0):
                            continue
                        dist = R.edit_distance(aseq[a0:a1], read[r0:r1], eq) if cfg["indels"] else R.hamming(aseq[a0:a1], read[r0:r1], eq)
                        if dist == err and err <= float(cfg["max_errors"]) * R.effective_len(aseq, a0, a1, aw):
                            explained = True
                            break
                    if explained:
                        break
                if not explained:
                    ctx.violation("cli-row-unexplained", f"info row errors={err} start={r0} end={r1} on read {read!r}: no adapter interval of {aseq} that the "
                                  f"type {cfg['type']} admits has this distance within tolerance; argv={argv}", case, klass=cfg["type"])
    finally:
        shutil.rmtree(d, ignore_errors=True)


def replay(ctx, case):
    if case.get("kind") == "long":
        long_no_indels_probe(ctx, case["k"])
        return
    if case.get("cli"):
        ctx.shard = case["cli_k"] // 100000
        cli_case(ctx, case["cli_k"])
        return
    cfg = {k: v for k, v in case.items() if k != "read"}
    ad = M.build(cfg)
    if ad is None:
        ctx.mark_inconclusive("configuration rejected")
        return
    ap = M.attr_problems(cfg, ad)
    if ap:
        ctx.case(("attrs", str(cfg)))
        ctx.violation("adapter-attributes", "; ".join(ap), M.case_dict(cfg, None))
    if case.get("read") is None:
        return
    one(ctx, cfg, ad, case["read"])
    ctx.san_check(case)
