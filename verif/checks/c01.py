"""C01 - every reported adapter match is a genuine, in-tolerance occurrence."""
from .. import alnmon as M

ID = "C01"
LEVEL = "exploration"
ENGINES = ['alnmon', 'sanrun']
TECHNIQUE = 'reference-model monitor (edit distance / placement oracle) on every match_to() result + ASan/UBSan run'
LEVEL_TEXT = "Every match returned by the real match_to() on ~10^5 (quick) to ~10^7 (thorough, plus a small exhaustive scope) generated (configuration, read) pairs is re-derived by an independent oracle; 'held' means no reported match on the executions observed violated bounds, placement, overlap, exact error count or tolerance. Exploration is the right level: the input space is unbounded and only executions are observed."
LEVEL_NOTE = "Trusted base: verif/refmodel.py (wildcard relation, unit-cost edit distance, placement table), the workload generator's diversity, CPython. Effective error rates >= 1 are outside the domain. Score is not judged."
VARIANTS = {"quick": ["plain"], "thorough": ["plain", "asan"]}
BUDGET_S = {"quick": 120, "thorough": 2400}
FLOORS = {"quick": 8000, "thorough": 300000}
EXHAUSTIVE = {"thorough": "all adapters over {A,C} of length<=4 x 8 types x rates {0,.25,.34,.5} x overlaps x indels "
                          "x all reads over {A,C} of length<=6 (in addition to the random workload)"}
RULE = ("Seeded random (adapter configuration, read) pairs: 8 adapter types (+ ;anywhere), IUPAC/AC/ACGT adapters of "
        "1-20 nt (thorough: to 70), rates 0..0.9 and absolute error numbers, min-overlap 1..len, -N, "
        "--match-read-wildcards, indels on/off; reads random or with a planted, mutated, truncated occurrence. "
        "Every return value of the real match_to() is checked against the reference model "
        "(bounds, placement by type, min overlap, errors == reference edit/Hamming distance, tolerance). "
        "Non-trivial = a match was reported; distinct by (configuration, read).")
ASSUMPTIONS = [
    "refmodel.make_eq is the documented wildcard relation; refmodel.edit_distance is unit-cost edit distance",
    "adapters with an effective error rate >= 1 are outside the stated domain and skipped",
    "a clean ASan/UBSan run means no report on the calls made, not memory safety",
]


def one(ctx, cfg, ad, read):
    try:
        mt = ad.match_to(read)
    except Exception as e:
        ctx.case(("exc", str(cfg), read))
        ctx.violation("exception", f"match_to raised {type(e).__name__}: {e}", M.case_dict(cfg, read))
        return
    if mt is None:
        ctx.case(None)
        return
    ctx.case((cfg["type"], cfg["seq"], cfg["max_errors"], cfg["min_overlap"], cfg["aw"], cfg["rw"], cfg["indels"],
              cfg.get("fa"), read))
    ctx.count("match:" + cfg["type"] + (";anywhere" if cfg.get("fa") else ""))
    if mt.errors:
        ctx.count("match_with_errors")
    if (mt.astop - mt.astart) != (mt.rstop - mt.rstart):
        ctx.count("match_with_indel")
    if mt.astop - mt.astart < len(ad.sequence):
        ctx.count("match_partial")
    if ad.adapter_wildcards or ad.read_wildcards:
        ctx.count("match_wildcards")
    ctx.sample(dict(cfg=cfg, read=read, match=M.match_tuple(mt)))
    for clause, text in M.check_reported_match(cfg, ad, read, mt):
        ctx.violation(clause, f"{text}; adapter={ad!r} read={read!r} match={M.match_tuple(mt)}",
                      M.case_dict(cfg, read), facts=dict(type=cfg["type"], indels=cfg["indels"]), klass=cfg["type"])


def run_shard(ctx):
    asan = ctx.variant == "asan"
    n_cfg = ctx.scale(4000, 80000) if not asan else ctx.scale(300, 6000)
    rng = ctx.rng("c01")
    for i in range(n_cfg):
        if ctx.out_of_time():
            ctx.count("stopped_on_time_budget")
            break
        cfg = M.gen_config(rng, long_adapters=True if ctx.tier == "thorough" else 0.12)
        ad = M.build(cfg)
        if ad is None:
            ctx.count("config_rejected_or_out_of_domain")
            if asan and ctx.san_check(None):
                # constructing an adapter outside the stated domain (rate >= 1) made the sanitizer
                # speak: recorded, but not a verdict on this property
                v = ctx.violations.pop()
                ctx.violation_counts["sanitizer"] -= 1
                ctx.count("sanitizer_report_out_of_domain_config")
                ctx.extra.setdefault("out_of_domain_sanitizer", v["detail"][:300])
            continue
        if asan:
            ctx.san_check(lambda: dict(cfg, read=None, at="construction"))
        for _ in range(8):
            read = M.gen_read(rng, cfg, ad.sequence, short_bias=asan)
            one(ctx, cfg, ad, read)
            if asan:
                ctx.san_check(lambda: M.case_dict(cfg, read))
    if ctx.tier == "thorough" and not asan:
        reads = list(M.exhaustive_reads(6))
        for cfg in M.exhaustive_configs(ctx.shard, ctx.nshards):
            ad = M.build(cfg)
            if ad is None:
                continue
            ctx.count("exhaustive_configs")
            for read in reads:
                one(ctx, cfg, ad, read)


def replay(ctx, case):
    cfg = {k: v for k, v in case.items() if k != "read"}
    ad = M.build(cfg)
    if ad is None:
        ctx.mark_inconclusive("configuration rejected")
        return
    one(ctx, cfg, ad, case["read"])
    ctx.san_check(case)
