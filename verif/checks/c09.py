"""C09 - best-adapter choice, repeated rounds and linked adapters follow the rules."""
import os
import shutil

from .. import climon, fastx, gen_cli as G, refmodel as R
from ..alnmon import rnd_seq, mutate

ID = "C09"
LEVEL = "exploration"
ENGINES = ["alnmon", "climon"]
TECHNIQUE = "reference-model monitor over hooked calls: every adapter's own match_to() vs the list's choice, per-round inputs of match_and_trim, both parts of LinkedAdapter.match_to; CLI cross-check via --rename {adapter_name}"
LEVEL_TEXT = ("On real adapter objects (index off) the monitor records, for every read, each adapter's own match and the match chosen by "
              "MultipleAdapters (winner = highest score, then fewer errors, then first given), the input and match of every round of "
              "AdapterCutter.match_and_trim for --times 1..4 and every action (round k must search what round k-1 left; one match per round; "
              "non-trim actions applied once to the original read over the union of removed parts), and both calls inside "
              "LinkedAdapter.match_to for the four required/optional combinations (3' part searched only in what remains after the 5' part; "
              "None iff a required part is missing; the read then stays untouched and is not counted).")
LEVEL_TEXT += ' At the command line the adapter list is also given for R2 of a pair (-A/-G/-B) with --no-index.'
LEVEL_NOTE = ("Trusted base: the per-adapter match_to() results themselves (their correctness is C01/C02), the reference selection rule and "
              "interval arithmetic written from the guide. Instance-level wrappers record the calls; no repository code is edited.")
VARIANTS = {"quick": ["plain"], "thorough": ["plain"]}
BUDGET_S = {"quick": 150, "thorough": 3000}
FLOORS = {"quick": 5000, "thorough": 150000}
RULE = ("Seeded random adapter lists (2-5 adapters of mixed types incl. linked, near-duplicates so that score ties occur) x reads with "
        "several planted occurrences. Non-trivial = at least one adapter matched (so there was a choice, a round or a linked decision "
        "to check); distinct by (adapter list, options, read).")
ASSUMPTIONS = [
    "each adapter's own match_to() is taken as given here (C01/C02 judge it)",
    "retain/crop only with --times 1, linked adapters not with crop (documented restrictions)",
]

TYPES = ["back", "front", "anywhere", "prefix", "suffix", "nfront", "nback", "rightmost", "linked"]


def gen_specs(rng):
    n = rng.randint(2, 5)
    base = rnd_seq(rng, rng.randint(4, 10), "ACGT")
    specs = []
    for i in range(n):
        t = rng.choice(TYPES)
        if rng.random() < 0.45:
            s = mutate(rng, base, rng.randint(0, 2), "ACGT", True) or "ACG"
        else:
            s = rnd_seq(rng, rng.randint(3, 10), "ACGT")
        sp = dict(type=t, seq=s, name=f"a{i}", max_errors=rng.choice([0, 0.1, 0.2, 0.3]), min_overlap=rng.randint(1, 4),
                  indels=rng.random() < 0.7)
        if t == "linked":
            sp["seq2"] = rnd_seq(rng, rng.randint(3, 8), "ACGT")
            sp["front_anchored"] = rng.random() < 0.5
            sp["back_anchored"] = rng.random() < 0.3
            sp["front_required"] = rng.random() < 0.5
            sp["back_required"] = rng.random() < 0.5
        specs.append(sp)
    if rng.random() < 0.2:
        # one anchored 5' and one anchored 3' adapter of equal length in a random order (plus maybe a regular one):
        # on reads carrying both, score and errors tie and the adapter given first must win
        L = rng.randint(5, 9)
        pair = [dict(type="suffix", seq=rnd_seq(rng, L, "ACGT"), name="s3", max_errors=0.1, min_overlap=3, indels=rng.random() < 0.5),
                dict(type="prefix", seq=rnd_seq(rng, L, "ACGT"), name="p5", max_errors=0.1, min_overlap=3, indels=rng.random() < 0.5)]
        rng.shuffle(pair)
        specs = pair + ([dict(type="back", seq=rnd_seq(rng, L, "ACGT"), name="b3", max_errors=0.1, min_overlap=3, indels=True)] if rng.random() < 0.4 else [])
        rng.shuffle(specs)
        return specs
    if rng.random() < 0.2:
        # a wildcard-rich ("UMI + adapter") variant of an earlier adapter given after it: matched N positions count for
        # the score, so the later one must win on reads that carry the longer construct
        src = rng.choice([sp for sp in specs if sp["type"] != "linked"] or [None])
        if src is not None:
            k = rng.randint(2, 8)
            d = dict(src)
            d["name"] = f"a{len(specs)}"
            d["umi_of"] = src["name"]
            if src["type"] in ("front", "prefix", "nfront", "rightmost"):
                d["seq"] = src["seq"] + "N" * k
            else:
                d["seq"] = "N" * k + src["seq"]
            specs.append(d)
    if rng.random() < 0.25:
        # exact duplicate sequence under another name: ties on score and errors -> first given wins
        d = dict(rng.choice(specs))
        d["name"] = f"a{len(specs)}"
        specs.append(d)
    return specs


def build(specs):
    import cutadapt.adapters as A

    cls = dict(back=A.BackAdapter, front=A.FrontAdapter, anywhere=A.AnywhereAdapter, prefix=A.PrefixAdapter,
               suffix=A.SuffixAdapter, nfront=A.NonInternalFrontAdapter, nback=A.NonInternalBackAdapter,
               rightmost=A.RightmostFrontAdapter)
    out = []
    for sp in specs:
        kw = dict(max_errors=sp["max_errors"], indels=sp["indels"])
        if sp["type"] == "linked":
            fc = A.PrefixAdapter if sp["front_anchored"] else A.FrontAdapter
            bc = A.SuffixAdapter if sp["back_anchored"] else A.BackAdapter
            fkw = dict(kw) if sp["front_anchored"] else dict(kw, min_overlap=sp["min_overlap"])
            bkw = dict(kw) if sp["back_anchored"] else dict(kw, min_overlap=sp["min_overlap"])
            f = fc(sp["seq"], name="linked_front", **fkw)
            b = bc(sp["seq2"], name="linked_back", **bkw)
            out.append(A.LinkedAdapter(f, b, front_required=sp["front_required"], back_required=sp["back_required"], name=sp["name"]))
        else:
            if sp["type"] not in ("prefix", "suffix"):
                kw["min_overlap"] = sp["min_overlap"]
            out.append(cls[sp["type"]](sp["seq"], name=sp["name"], **kw))
    return out


def gen_read(rng, specs):
    s = rnd_seq(rng, rng.randint(0, 25), "ACGT")
    for _ in range(rng.choice([0, 1, 1, 2, 3])):
        sp = rng.choice(specs)
        a = sp["seq"] if rng.random() < 0.6 or "seq2" not in sp else sp["seq2"]
        if "N" in a:
            a = "".join(c if c != "N" else rng.choice("ACGT") for c in a)
        r = rng.random()
        if r < 0.2:
            a = a[: rng.randint(1, len(a))]
        elif r < 0.4:
            a = a[rng.randint(0, len(a) - 1):]
        if rng.random() < 0.25 and len(a) > 3:
            a = mutate(rng, a, 1, "ACGT", True)
        pos = rng.choice([0, len(s), rng.randint(0, len(s))])
        s = s[:pos] + a + s[pos:]
    pre = [sp for sp in specs if sp["type"] == "prefix"]
    suf = [sp for sp in specs if sp["type"] == "suffix"]
    if pre and suf and rng.random() < 0.5:
        s = pre[0]["seq"] + rnd_seq(rng, rng.randint(0, 12), "ACGT") + suf[0]["seq"]
    if rng.random() < 0.3:
        # full linked construct
        for sp in specs:
            if sp["type"] == "linked" and rng.random() < 0.7:
                s = sp["seq"] + rnd_seq(rng, rng.randint(0, 12), "ACGT") + sp["seq2"] + (rnd_seq(rng, rng.randint(0, 4), "ACGT") if rng.random() < 0.5 else "")
                break
    return s


def mkey(m):
    import cutadapt.adapters as A

    if m is None:
        return None
    if isinstance(m, A.LinkedMatch):
        return ("linked", m.adapter.name, mkey(m.front_match), mkey(m.back_match))
    return (type(m).__name__, m.adapter.name, m.astart, m.astop, m.rstart, m.rstop, m.score, m.errors)


def ref_score_errors(m):
    """Score and errors of a match; for a linked match the sums over the parts that were found (computed here, not
    taken from the LinkedMatch object)."""
    import cutadapt.adapters as A

    if isinstance(m, A.LinkedMatch):
        parts = [x for x in (m.front_match, m.back_match) if x is not None]
        return sum(x.score for x in parts), sum(x.errors for x in parts)
    return m.score, m.errors


def ref_best(adapters, seq):
    """Reference choice: maximal score, then fewer errors, then the adapter given first."""
    cands = []
    for pos, a in enumerate(adapters):
        m = a.match_to(seq)
        if m is not None:
            sc, er = ref_score_errors(m)
            cands.append((-sc, er, pos, m))
    if not cands:
        return None, []
    cands.sort(key=lambda c: c[:3])
    return cands[0][3], cands


def ref_trimmed_interval(m, start, end):
    """Interval of the original read kept after applying match m to the current interval [start, end)."""
    import cutadapt.adapters as A

    if isinstance(m, A.LinkedMatch):
        if m.front_match is not None:
            start, end = ref_trimmed_interval(m.front_match, start, end)
        if m.back_match is not None:
            start, end = ref_trimmed_interval(m.back_match, start, end)
        return start, end
    if isinstance(m, A.RemoveBeforeMatch):
        return start + m.rstop, end
    return start, start + m.rstart


def check_linked(ctx, specs, sp, ad, read, case):
    """Hook both parts of the linked adapter for this call."""
    calls = []
    f, b = ad.front_adapter, ad.back_adapter
    of, ob = f.match_to, b.match_to

    def wf(s):
        r = of(s); calls.append(("front", s, r)); return r

    def wb(s):
        r = ob(s); calls.append(("back", s, r)); return r

    f.match_to, b.match_to = wf, wb
    try:
        m = ad.match_to(read)
    finally:
        del f.match_to
        del b.match_to
    fm = next((c[2] for c in calls if c[0] == "front"), None)
    backs = [c for c in calls if c[0] == "back"]
    ctx.count("linked_calls")
    viol = lambda kind, text: ctx.violation(kind, f"{text}; linked {sp['name']} front={f!r} back={b!r} required=({ad.front_required},{ad.back_required}) read={read!r}", case,
                                            klass=f"{ad.front_required}{ad.back_required}")
    if ad.front_required and fm is None:
        if m is not None:
            viol("linked-required-front-missing", "required 5' part not found but a match is returned")
        return m
    expect_arg = read[fm.rstop:] if fm is not None else read
    if not backs:
        viol("linked-back-not-searched", "3' part was never searched")
        return m
    if backs[0][1] != expect_arg:
        viol("linked-back-searched-elsewhere", f"3' part searched in {backs[0][1]!r}, expected what remains after the 5' part: {expect_arg!r}")
    bm = backs[0][2]
    should_none = (bm is None and (ad.back_required or fm is None))
    if should_none and m is not None:
        viol("linked-required-back-missing", "required part missing but a match is returned")
    if not should_none:
        if m is None:
            viol("linked-lost", f"all required parts found (front={mkey(fm)}, back={mkey(bm)}) but None returned")
        elif (mkey(m.front_match), mkey(m.back_match)) != (mkey(fm), mkey(bm)):
            viol("linked-parts-differ", f"returned parts {mkey(m)} differ from the parts' own matches {mkey(fm)}, {mkey(bm)}")
    return m


def check_case(ctx, specs, opts, read, adapters=None):
    import cutadapt.adapters as A
    from cutadapt.modifiers import AdapterCutter, ModificationInfo
    from dnaio import SequenceRecord

    case = dict(specs=specs, opts=opts, read=read)
    if adapters is None:
        adapters = build(specs)
    times, action = opts["times"], opts["action"]
    # (a) best-of choice
    multi = A.MultipleAdapters(adapters)
    best, cands = ref_best(adapters, read)
    got = multi.match_to(read)
    nontrivial = bool(cands)
    if len(cands) > 1:
        ctx.count("choice_among_several")
        if len({c[0] for c in cands}) < len(cands):
            ctx.count("score_ties")
    if mkey(got) != mkey(best) or (got is not None and got.adapter is not best.adapter):
        ctx.violation("best-adapter", f"chosen {mkey(got)}, reference winner {mkey(best)} among {[mkey(c[3]) for c in cands]}; read={read!r} "
                      f"adapters={[(s['name'], s['type'], s['seq']) for s in specs]}", case)
    # (c) linked adapters
    for sp, ad in zip(specs, adapters):
        if sp["type"] == "linked":
            lm = check_linked(ctx, specs, sp, ad, read, case)
            if lm is not None:
                nontrivial = True
    # (b) rounds and actions. Default mode (index allowed) is used when at most one anchored 5' and one anchored 3'
    # adapter could be indexed, i.e. when no index is involved although indexing is switched on.
    n_pre = sum(1 for a in adapters if A.AdapterIndex.is_acceptable(a, prefix=True)) if all(not isinstance(a, A.LinkedAdapter) for a in adapters) else 9
    n_suf = sum(1 for a in adapters if not isinstance(a, A.LinkedAdapter) and A.AdapterIndex.is_acceptable(a, prefix=False))
    use_default_mode = n_pre <= 1 and n_suf <= 1 and all(not isinstance(a, A.LinkedAdapter) for a in adapters)
    if use_default_mode:
        ctx.count("default_mode_without_index")
    cutter = AdapterCutter(adapters, times=times, action=None if action == "none" else action, index=use_default_mode)
    q = "".join(chr(33 + (i * 7) % 40) for i in range(len(read)))
    rec = SequenceRecord("r1", read, q)
    # reference rounds
    start, end = 0, len(read)
    ref_matches = []
    for _ in range(times):
        m, _c = ref_best(adapters, read[start:end])
        if m is None:
            break
        ref_matches.append(m)
        start, end = ref_trimmed_interval(m, start, end)
    # hook the per-round searches
    searched = []
    orig = cutter.adapters.match_to

    def hooked(s):
        r = orig(s); searched.append((s, r)); return r

    cutter.adapters.match_to = hooked
    info = ModificationInfo(rec)
    wa0 = cutter.with_adapters
    out = cutter(rec[:], info)
    del cutter.adapters.match_to
    got_matches = list(info.matches)
    if [mkey(m) for m in got_matches] != [mkey(m) for m in ref_matches]:
        ctx.violation("rounds-matches", f"matches per round {[mkey(m) for m in got_matches]}, reference {[mkey(m) for m in ref_matches]}; "
                      f"times={times} read={read!r} adapters={[(s['name'], s['type'], s['seq']) for s in specs]}", case, klass=action)
    # round k searches exactly what round k-1 left
    exp_inputs = []
    s0, e0 = 0, len(read)
    for m in ref_matches:
        exp_inputs.append(read[s0:e0])
        s0, e0 = ref_trimmed_interval(m, s0, e0)
    if len(ref_matches) < times:
        exp_inputs.append(read[s0:e0])
    got_inputs = [s for s, _r in searched]
    cmp_inputs = got_inputs if action != "lowercase" else [s.upper() for s in got_inputs]
    cmp_exp = exp_inputs if action != "lowercase" else [s.upper() for s in exp_inputs]
    if cmp_inputs != cmp_exp:
        ctx.violation("rounds-inputs", f"rounds searched {got_inputs}, expected {exp_inputs}; times={times} action={action} read={read!r}", case, klass=action)
    if len(got_matches) > times:
        ctx.violation("rounds-limit", f"{len(got_matches)} matches with --times {times}", case)
    if (cutter.with_adapters - wa0) != (1 if ref_matches else 0):
        ctx.violation("with-adapters-count", f"with_adapters increased by {cutter.with_adapters - wa0}, {len(ref_matches)} matches", case)
    # action applied once to the original read over the union of removed parts
    n = len(read)
    if not ref_matches:
        exp_seq, exp_q = read, q
        if action == "lowercase":
            exp_seq = read.upper()
    elif action == "trim":
        exp_seq, exp_q = read[start:end], q[start:end]
    elif action == "mask":
        exp_seq, exp_q = "N" * start + read[start:end] + "N" * (n - end), q
    elif action == "lowercase":
        exp_seq, exp_q = read[:start].lower() + read[start:end].upper() + read[end:].lower(), q
    elif action == "none":
        exp_seq, exp_q = read, q
    elif action in ("retain", "crop"):
        m = ref_matches[-1]
        if isinstance(m, A.LinkedMatch):
            fs = m.front_match.rstart if m.front_match is not None else 0
            off = m.front_match.rstop if m.front_match is not None else 0
            en = (m.back_match.rstop + off) if m.back_match is not None else n
            a, b = fs, en
        elif isinstance(m, A.RemoveBeforeMatch):
            a, b = (m.rstart, n) if action == "retain" else (m.rstart, m.rstop)
        else:
            a, b = (0, m.rstop) if action == "retain" else (m.rstart, m.rstop)
        exp_seq, exp_q = read[a:b], q[a:b]
    if (out.sequence, out.qualities) != (exp_seq, exp_q):
        ctx.violation("action-result", f"action {action} times {times}: got {out.sequence!r}, expected {exp_seq!r} "
                      f"(kept interval [{start}:{end}] of {read!r}); matches={[mkey(m) for m in ref_matches]}", case, klass=action)
    if len(ref_matches) > 1:
        ctx.count("multi_round_reads")
    ctx.count("action:" + action)
    ctx.case((str(specs), str(opts), read) if nontrivial else None)
    if nontrivial and len(cands) > 1:
        ctx.sample(dict(adapters=[(s["name"], s["type"], s["seq"], s.get("seq2")) for s in specs], opts=opts, read=read,
                        candidates=[mkey(c[3]) for c in cands], chosen=mkey(got)))


def render_spec(rng, sp):
    """Command-line spelling of a structured adapter description (documented notation). Returns [flag, text]."""
    def params(anchored):
        p = [f"e={sp['max_errors']}"]
        if not anchored:
            p.append(f"o={sp['min_overlap']}")
        p.append("indels" if sp["indels"] else "noindels")
        return p

    t = sp["type"]
    name = sp["name"] + "="
    if t == "linked":
        flag = rng.choice(["-a", "-g"])
        def_f, def_b = (True, True) if flag == "-g" else (sp["front_anchored"], sp["back_anchored"])
        fp, bp = params(sp["front_anchored"]), params(sp["back_anchored"])
        if sp["front_required"] != def_f or rng.random() < 0.3:
            fp.append("required" if sp["front_required"] else "optional")
        if sp["back_required"] != def_b or rng.random() < 0.3:
            bp.append("required" if sp["back_required"] else "optional")
        front = ("^" if sp["front_anchored"] else "") + sp["seq"] + ";" + ";".join(fp)
        back = sp["seq2"] + ("$" if sp["back_anchored"] else "") + ";" + ";".join(bp)
        return [flag, name + front + "..." + back]
    text = dict(back="{s}", front="{s}", anywhere="{s}", prefix="^{s}", suffix="{s}$", nfront="X{s}", nback="{s}X", rightmost="{s}")[t].format(s=sp["seq"])
    p = params(t in ("prefix", "suffix"))
    if t == "rightmost":
        p.append("rightmost")
    flag = dict(back="-a", front="-g", anywhere="-b", prefix="-g", suffix="-a", nfront="-g", nback="-a", rightmost="-g")[t]
    return [flag, name + text + ";" + ";".join(p)]


def cli_case(ctx, k):
    """Command-line cross-check: the adapters are written in the documented notation (including ;required/;optional on
    linked parts), the reference objects are built directly from the structured description (not by the parser), and
    {adapter_name} of the last round and the trimmed read must equal the reference rounds."""
    rng = ctx.rng("c09cli", k)
    specs = gen_specs(rng)
    names = set()
    specs = [sp for sp in specs if not (sp["name"] in names or names.add(sp["name"]))]
    times = rng.choice([1, 2, 3])
    recs = []
    for i in range(rng.randint(10, 30)):
        s_ = gen_read(rng, specs)
        recs.append((f"r{i}", s_, "I" * len(s_)))
    d = os.path.join(ctx.scratch, f"cli{k}")
    os.makedirs(d, exist_ok=True)
    try:
        adapters = build(specs)
        import cutadapt.adapters as A
        plain = all(sp["type"] != "linked" for sp in specs)
        n_pre = sum(1 for a in adapters if plain and A.AdapterIndex.is_acceptable(a, prefix=True))
        n_suf = sum(1 for a in adapters if plain and A.AdapterIndex.is_acceptable(a, prefix=False))
        no_index = [] if (plain and n_pre <= 1 and n_suf <= 1) else ["--no-index"]
        if not no_index:
            ctx.count("cli_default_mode_without_index")
        adargs = [x for sp in specs for x in render_spec(rng, sp)]
        as_r2 = rng.random() < 0.35
        if as_r2:
            # the same adapter list given for the second read of a pair (-A/-G/-B): the rules are those of the first read
            ctx.count("cli_runs_with_the_adapters_on_r2")
            adargs = [x.upper() if j % 2 == 0 else x for j, x in enumerate(adargs)]
            dummy = [(n_, "".join(rng.choice("ACGT") for _ in range(rng.randint(5, 20))), None) for n_, _s, _q in recs]
            dummy = [(n_, s_, "I" * len(s_)) for n_, s_, _ in dummy]
            inputs = climon.write_inputs(d, dummy, recs)
            io = ["-o", "o1.fq", "-p", "out.fq"]
        else:
            inputs = climon.write_inputs(d, recs)
            io = ["-o", "out.fq"]
        argv = adargs + ["-n", str(times), "-e", "0.1", "-O", "3"] + no_index + ["--rename", "{id} {adapter_name}"] + io + inputs
        run = climon.run(d, argv, trace=False)
        case = climon.case_record(argv, d, inputs)
        case["cli_k"] = k
        ctx.count("cli_runs")
        if run.rc != 0:
            ctx.count("cli_runs_failed")
            ctx.extra.setdefault("cli_failed_example", (argv, run.err[-300:]))
            return
        fo = run.records("out.fq")
        if fo is None or fo[0] == "error":
            ctx.violation("cli-output", f"output missing/unparseable: {fo}", case)
            return
        outs = {fastx.rid(r[0]): r for r in fo[1]}
        for name, s, q in recs:
            start, end = 0, len(s)
            last = None
            for _ in range(times):
                m, _c = ref_best(adapters, s[start:end])
                if m is None:
                    break
                last = m
                start, end = ref_trimmed_interval(m, start, end)
            o = outs.get(fastx.rid(name))
            ctx.case(("cli", str(argv[:-len(inputs)]), s) if last is not None else None)
            if any(sp["type"] == "linked" for sp in specs):
                ctx.count("cli_reads_with_linked_adapters")
            if o is None:
                ctx.violation("cli-missing-read", f"read {name} not written", case)
                continue
            exp_name = last.adapter.name if last is not None else "no_adapter"
            got_name = o[0].split(" ", 1)[1] if " " in o[0] else ""
            if got_name != exp_name or o[1] != s[start:end]:
                ctx.violation("cli-rounds", f"read {name} {s!r}: got name {got_name!r} seq {o[1]!r}, reference {exp_name!r} {s[start:end]!r}; argv={argv}", case,
                              klass="linked" if any(sp["type"] == "linked" for sp in specs) else "plain")
    finally:
        shutil.rmtree(d, ignore_errors=True)


def run_shard(ctx):
    rng = ctx.rng("c09")
    n = ctx.scale(450, 15000)
    for i in range(n):
        if ctx.out_of_time():
            ctx.count("stopped_on_time_budget")
            break
        specs = gen_specs(rng)
        action = rng.choice(["trim", "trim", "mask", "lowercase", "none", "retain", "crop"])
        times = rng.choice([1, 1, 2, 3, 4])
        if action in ("retain", "crop"):
            times = 1
        if action == "crop" and any(s["type"] == "linked" for s in specs):
            action = "trim"
        opts = dict(times=times, action=action)
        try:
            adapters = build(specs)
        except Exception as e:
            ctx.count("specs_rejected")
            continue
        for _ in range(10):
            read = gen_read(rng, specs)
            try:
                check_case(ctx, specs, opts, read, adapters)
            except Exception as e:
                ctx.case(("exc", str(specs), read))
                ctx.violation("exception", f"{type(e).__name__}: {e}; read={read!r} opts={opts} specs={specs}", dict(specs=specs, opts=opts, read=read))
    for k in range(ctx.scale(12, 200)):
        cli_case(ctx, ctx.shard * 100000 + k)


def replay(ctx, case):
    if case.get("cli"):
        ctx.shard = case["cli_k"] // 100000
        cli_case(ctx, case["cli_k"])
        return
    check_case(ctx, case["specs"], case["opts"], case["read"])
