"""C08 - an adapter index changes only speed, never what is found."""
import itertools

from .. import refmodel as R
from ..alnmon import rnd_seq, mutate

ID = "C08"
LEVEL = "exploration"
ENGINES = ["alnmon", "climon", "sanrun"]
TECHNIQUE = "reference-model monitor on IndexedPrefix/SuffixAdapters.match_to + differential observer index vs one-by-one (AdapterCutter(index=True/False)), permuted adapter order; ASan/UBSan (thorough)"
LEVEL_TEXT = ("Generated sets of 2-6 anchored ACGT adapters (equal and mixed lengths, near-duplicates, up to three allowed errors, "
              "indels on/off) and reads built from mutated adapters, reads shorter than the longest indexed string, reads equal to "
              "one adapter, lower case, with N. Every index match is checked by a reference oracle (inside the read, anchored, exact "
              "distance, tolerance); when exactly one adapter occurs within tolerance the index must report it; for equal lengths "
              "without indels and no tie, index and one-by-one search must agree for every permutation of the adapter list.")
LEVEL_TEXT += ' Demultiplexing-sized sets (48-100 barcodes) with characters that are neither a base nor N (including U) at varying positions, and a second index object that sees the same reads in reversed order (the answer must not depend on earlier reads).'
LEVEL_NOTE = ("Trusted base: refmodel edit/Hamming distance with plain (case-insensitive) comparison; reference enumeration of all "
              "admissible affix lengths. The tie premise is evaluated both over all adapters and over the adapters within tolerance; "
              "a case is used for the agreement clause only if neither pair ties.")
VARIANTS = {"quick": ["plain", "asan"], "thorough": ["plain", "asan"]}
BUDGET_S = {"quick": 150, "thorough": 3000}
FLOORS = {"quick": 5000, "thorough": 150000}
RULE = ("Seeded random adapter sets x 12 reads each. Non-trivial = the index reported a match, or exactly one adapter occurs "
        "within tolerance, or the agreement premise (equal length, no indels, N-free, no tie) holds; distinct by (adapter set, read).")
ASSUMPTIONS = [
    "adapters over ACGT only, k <= 3 (what the index accepts)",
    "duplicate adapter sequences are generated rarely and then only clause (1) applies",
    "'equally close to its two nearest adapters' is read among the adapters that occur within their own tolerance: an adapter "
    "that is nearer but outside its tolerance (possible with per-adapter ;e=) does not break a tie between two admissible ones",
    "a clean ASan/UBSan run means no report on the calls made, not memory safety",
]


def plain_eq(a, r):
    return a.upper() == r.upper()


def occurs(seq, rate, indels, read, prefix):
    """Minimal distance of an anchored occurrence within tolerance (all admissible affix lengths) or None."""
    m = len(seq)
    k = int(rate * m)
    best = None
    if indels:
        for L in range(max(0, m - k), min(len(read), m + k) + 1):
            seg = read[:L] if prefix else read[len(read) - L:]
            d = R.edit_distance(seq, seg, plain_eq)
            if d <= rate * m and (best is None or d < best):
                best = d
    else:
        if len(read) >= m:
            seg = read[:m] if prefix else read[len(read) - m:]
            d = R.hamming(seq, seg, plain_eq)
            if d <= rate * m:
                best = d
    return best


def gen_many_set(rng):
    """A demultiplexing-sized set: 48-100 equally long barcodes, a third of them one or two substitutions away from another."""
    prefix = rng.random() < 0.5
    L = rng.choice([8, 8, 9, 10])
    n = rng.randint(48, 100)
    seqs = []
    while len(seqs) < n:
        if seqs and rng.random() < 0.3:
            sl = list(rng.choice(seqs))
            for _ in range(rng.choice([1, 2])):
                sl[rng.randrange(L)] = rng.choice("ACGT")
            s = "".join(sl)
        else:
            s = rnd_seq(rng, L, "ACGT")
        if s not in seqs:
            seqs.append(s)
    rate = rng.choice([1, 1, 0.125, 0.2, 2])
    indels = rate != 2 and rng.random() < 0.25
    return dict(prefix=prefix, specs=[dict(seq=s, max_errors=rate, indels=indels, name=f"a{i}") for i, s in enumerate(seqs)], many=True)


def gen_many_read(rng, focus, prefix):
    """Reads around a few of the barcodes, with one or two characters that are neither a base nor N at varying positions."""
    a = rng.choice(focus)
    rl = list(a.sequence)
    if rng.random() < 0.3:
        rl[rng.randrange(len(rl))] = rng.choice("ACGT")
    for j in rng.sample(range(len(rl)), rng.choice([1, 1, 2])):
        rl[j] = rng.choice("RYKMSW.NXrUu")
    rest = rnd_seq(rng, rng.randint(0, 8), "ACGT")
    return "".join(rl) + rest if prefix else rest + "".join(rl)


def gen_set(rng):
    if rng.random() < 0.035:
        return gen_many_set(rng)
    if rng.random() < 0.04:
        # absolute error numbers on the adapter lengths for which (k / length) * length falls just below k in double
        # arithmetic: index and one-by-one search must draw the same line (no indels: the spheres stay small)
        prefix = rng.random() < 0.5
        L = rng.choice([47, 49, 49, 94, 98])
        kk = rng.choice([1, 2]) if L in (49, 98) else 3
        kk = min(kk, 2)
        specs = [dict(seq=rnd_seq(rng, L, "ACGT"), max_errors=kk, indels=False, name=f"a{i}") for i in range(2)]
        return dict(prefix=prefix, specs=specs, absolute=True)
    prefix = rng.random() < 0.5
    nad = rng.randint(2, 6)
    equal = rng.random() < 0.5
    base_m = rng.randint(3, 12)
    indels_all = rng.random() < 0.5
    center = rnd_seq(rng, base_m, "ACGT")
    specs = []
    for i in range(nad):
        m = base_m if equal else rng.randint(3, 12)
        if rng.random() < 0.5:
            s = mutate(rng, center, rng.randint(1, 3), "ACGT", indels=not equal)
            if equal:
                s = (s + "ACGTACGTACGT")[:base_m]
            if not s:
                s = "ACG"
        else:
            s = rnd_seq(rng, m, "ACGT")
        rate = rng.choice([0, 0.1, 0.2, 0.25, 0.3, 1, 2, 3])
        if rate >= 1 and rate >= len(s):
            rate = 0.2
        ind = indels_all if rng.random() < 0.9 else not indels_all
        specs.append(dict(seq=s, max_errors=rate, indels=ind, name=f"a{i}"))
    return dict(prefix=prefix, specs=specs)


def build(setd):
    import cutadapt.adapters as A

    cls = A.PrefixAdapter if setd["prefix"] else A.SuffixAdapter
    ads = []
    for sp in setd["specs"]:
        try:
            a = cls(sp["seq"], max_errors=sp["max_errors"], indels=sp["indels"], name=sp["name"])
        except Exception:
            continue
        if a.max_error_rate >= 1 or not A.AdapterIndex.is_acceptable(a, setd["prefix"]):
            continue
        ads.append(a)
    return ads


def gen_read(rng, ads, prefix):
    a = rng.choice(ads)
    mode = rng.random()
    if mode < 0.55:
        core = mutate(rng, a.sequence, rng.choice([0, 0, 1, 1, 2, 3]), "ACGT", a.indels)
        rest = rnd_seq(rng, rng.randint(0, 8), "ACGT")
        read = core + rest if prefix else rest + core
    elif mode < 0.7:
        read = rnd_seq(rng, rng.randint(0, 14), "ACGT")
    elif mode < 0.85:
        # shorter than the longest indexed string / partial adapter
        read = a.sequence[: rng.randint(0, len(a.sequence))] if prefix else a.sequence[rng.randint(0, len(a.sequence)):]
        if rng.random() < 0.3:
            read = mutate(rng, read, 1, "ACGT", True)
    else:
        read = a.sequence
    if rng.random() < 0.15:
        # lower / mixed case (the index must treat reads case-insensitively like the one-by-one search)
        read = read.lower() if rng.random() < 0.5 else "".join(c.lower() if rng.random() < 0.3 else c for c in read)
    r = rng.random()
    if r < 0.08 and read:
        p = rng.randrange(len(read))
        read = read[:p] + "N" + read[p + 1:]
    elif r < 0.2 and read:
        # one to three N, preferably where the read has an A (the index looks N-containing affixes up with N->A)
        cand = [j for j, c in enumerate(read) if c in "Aa"] or list(range(len(read)))
        rl = list(read)
        for j in rng.sample(cand, min(len(cand), rng.randint(1, 3))):
            rl[j] = "N"
        read = "".join(rl)
    elif r < 0.27 and read:
        # other characters that are not N: IUPAC codes, a no-call dot; they count as mismatches like any wrong base
        rl = list(read)
        for j in rng.sample(range(len(rl)), min(len(rl), rng.randint(1, 2))):
            rl[j] = rng.choice("RYKMSWBDHVX.-rUUu")
        read = "".join(rl)
    return read


def mt(m):
    return None if m is None else (m.adapter.name, m.astart, m.astop, m.rstart, m.rstop, m.errors)


def check_one(ctx, setd, ads, idx, cutter_i, cutter_p, read, perm_indexes, history=None):
    import cutadapt.adapters as A

    prefix = setd["prefix"]
    case = dict(set=setd, read=read)
    if history is not None:
        case["history"] = list(history)
    n = len(read)
    try:
        mi = idx.match_to(read)
    except Exception as e:
        ctx.case(("exc", str(setd), read))
        ctx.violation("exception", f"index match_to raised {type(e).__name__}: {e}; set={describe(ads)} read={read!r}", case)
        return
    occ = {a.name: occurs(a.sequence, a.max_error_rate, a.indels, read, prefix) for a in ads}
    within = [nm for nm, d in occ.items() if d is not None]
    nfree = "N" not in read.upper()
    unique_names = len({a.sequence for a in ads}) == len(ads)
    nontrivial = mi is not None
    # (1) every index match is a genuine anchored occurrence
    if mi is not None:
        ctx.count("index_matches")
        ad = mi.adapter
        pr = []
        if not (0 <= mi.rstart <= mi.rstop <= n):
            pr.append(("index-bounds", f"rstart={mi.rstart} rstop={mi.rstop} outside read of length {n}"))
        else:
            if prefix and mi.rstart != 0:
                pr.append(("index-anchor", "5' match does not start at 0"))
            if not prefix and mi.rstop != n:
                pr.append(("index-anchor", "3' match does not end at the read end"))
            seg = read[mi.rstart:mi.rstop]
            if ad.indels:
                d = R.edit_distance(ad.sequence, seg, plain_eq)
            else:
                d = R.hamming(ad.sequence, seg, plain_eq) if len(seg) == len(ad.sequence) else -1
            if d != mi.errors:
                pr.append(("index-errors", f"reported {mi.errors} errors, reference distance {d} to removed affix {seg!r}"))
            if mi.errors > ad.max_error_rate * len(ad.sequence):
                pr.append(("index-tolerance", f"{mi.errors} errors > {ad.max_error_rate}*{len(ad.sequence)}"))
        for kind, text in pr:
            ctx.violation(kind, f"{text}; set={describe(ads)} read={read!r} match={mt(mi)}", case,
                          facts=dict(read_len=n, longest=max(len(a.sequence) for a in ads), prefix=prefix))
    # (2) exactly one adapter within tolerance => the index reports it
    if nfree and unique_names and len(within) == 1:
        nontrivial = True
        ctx.count("premise_unique_within_tolerance")
        if mi is None or mi.adapter.name != within[0]:
            ctx.violation("index-misses-unique",
                          f"only {within[0]} occurs within tolerance (distances {occ}) but the index reports {mt(mi)}; "
                          f"set={describe(ads)} read={read!r}", case,
                          facts=dict(read_len=n, prefix=prefix, reported=mi is not None))
    # (3) equal lengths, no indels, N-free, no tie: index == one-by-one, for every order
    lens = {len(a.sequence) for a in ads}
    if len(lens) == 1 and not any(a.indels for a in ads) and nfree and unique_names and n >= min(lens):
        mlen = min(lens)
        seg = read[:mlen] if prefix else read[n - mlen:]
        ds_all = sorted(R.hamming(a.sequence, seg, plain_eq) for a in ads)
        ds_tol = sorted(d for d in occ.values() if d is not None)
        tie_all = len(ds_all) > 1 and ds_all[0] == ds_all[1]
        tie_tol = len(ds_tol) > 1 and ds_tol[0] == ds_tol[1]
        if not tie_all and not tie_tol:
            nontrivial = True
            ctx.count("premise_agreement")
            from dnaio import SequenceRecord

            rec = SequenceRecord("r", read, "I" * n)
            out_i, m_i = cutter_i.match_and_trim(rec[:])
            out_p, m_p = cutter_p.match_and_trim(rec[:])
            a_i = [mt(x) for x in m_i]
            a_p = [mt(x) for x in m_p]
            if a_i != a_p or out_i.sequence != out_p.sequence:
                ctx.violation("index-vs-plain",
                              f"index: {a_i} -> {out_i.sequence!r}; one-by-one: {a_p} -> {out_p.sequence!r}; nearest distances {ds_all}; "
                              f"set={describe(ads)} read={read!r}", case, facts=dict(prefix=prefix))
            for pidx in perm_indexes:
                mm = pidx.match_to(read)
                if mt(mm) != mt(mi):
                    ctx.violation("index-order-dependent",
                                  f"given order: {mt(mi)}, permuted order: {mt(mm)}; set={describe(ads)} read={read!r}", case,
                                  facts=dict(prefix=prefix))
                    break
        else:
            ctx.count("agreement_skipped_tie")
    ctx.case((str(setd), read) if nontrivial else None)
    if mi is not None:
        ctx.sample(dict(adapters=describe(ads), prefix=prefix, read=read, index_match=mt(mi), distances=occ))


def describe(ads):
    return [(a.name, a.sequence, round(a.max_error_rate, 3), a.indels) for a in ads]


def run_set(ctx, rng, setd):
    import cutadapt.adapters as A
    from cutadapt.modifiers import AdapterCutter

    ads = build(setd)
    if len(ads) < 2:
        ctx.count("set_rejected")
        return
    if len({a.sequence for a in ads}) < len(ads) and rng.random() < 0.8:
        ctx.count("set_with_duplicates_skipped")
        return
    prefix = setd["prefix"]
    try:
        idx = A.IndexedPrefixAdapters(ads) if prefix else A.IndexedSuffixAdapters(ads)
        cutter_i = AdapterCutter(ads, index=True)
        cutter_p = AdapterCutter(ads, index=False)
        perm_indexes = []
        for _ in range(1 if setd.get("many") else 2):
            perm = ads[:]
            rng.shuffle(perm)
            perm_indexes.append(A.IndexedPrefixAdapters(perm) if prefix else A.IndexedSuffixAdapters(perm))
    except Exception as e:
        ctx.violation("exception", f"building the index raised {type(e).__name__}: {e}; set={describe(ads)}", dict(set=setd, read=None))
        return
    ctx.count("sets")
    if len({len(a.sequence) for a in ads}) > 1:
        ctx.count("sets_mixed_lengths")
    many = bool(setd.get("many"))
    if many:
        ctx.count("sets_with_48_or_more_adapters")
        focus = rng.sample(ads, 3)
        close = [b for b in ads if any(b is not a and R.hamming(a.sequence, b.sequence, plain_eq) <= 2 for a in focus)]
        focus += close[:3]
    history = []
    for _ in range(40 if many else 12):
        read = gen_many_read(rng, focus, prefix) if many and rng.random() < 0.75 else gen_read(rng, ads, prefix)
        history.append(read)
        check_one(ctx, setd, ads, idx, cutter_i, cutter_p, read, perm_indexes, history=history if many else None)
        if ctx.variant == "asan":
            ctx.san_check(lambda: dict(set=setd, read=read))
    # what the index answers for a read must not depend on the reads it has seen before: a second index object gets the
    # same reads in reversed order
    if not many and rng.random() < 0.7:
        return
    try:
        idx2 = A.IndexedPrefixAdapters(ads) if prefix else A.IndexedSuffixAdapters(ads)
        for read in reversed(history):
            m2 = mt(idx2.match_to(read))
            m1 = mt(idx.match_to(read))
            ctx.count("history_comparisons")
            if m1 != m2:
                ctx.violation("index-history-dependent", f"after the reads {history[:6]}... the index answers {m1} for {read!r}, an index that saw the reads in "
                              f"reversed order answers {m2}; set={describe(ads)[:8]}...", dict(set=setd, read=read, history=list(history)), facts=dict(prefix=prefix))
                break
    except Exception as e:
        ctx.violation("exception", f"index match_to raised {type(e).__name__}: {e}; set={describe(ads)[:8]}", dict(set=setd, read=None))


def cli_case(ctx, k):
    """--no-index vs the default at the command line: well separated equal-length anchored adapters without indels
    (no read can be within tolerance of two of them), so both runs must write identical files."""
    import os
    import shutil
    from .. import climon, gen_cli as G

    rng = ctx.rng("c08cli", k)
    prefix = rng.random() < 0.5
    L = rng.randint(8, 12)
    kerr = rng.choice([0, 1, 2])
    ads = []
    tries = 0
    while len(ads) < rng.randint(2, 5) and tries < 200:
        tries += 1
        s = G.rnd(rng, L)
        if all(sum(a != b for a, b in zip(s, t)) >= 2 * kerr + 2 for t in ads):
            ads.append(s)
    if len(ads) < 2:
        return
    recs = []
    for i in range(40):
        a = rng.choice(ads)
        core = G.mutate_sub(rng, a, rng.randint(0, kerr + 1))
        rest = G.rnd(rng, rng.randint(0, 15))
        s = core + rest if prefix else rest + core
        if rng.random() < 0.15:
            s = G.rnd(rng, rng.randint(0, 20))
        recs.append((f"r{i}", s, "I" * len(s)))
    d = os.path.join(ctx.scratch, f"cli{k}")
    os.makedirs(d, exist_ok=True)
    try:
        inputs = climon.write_inputs(d, recs)
        argv = []
        for i, a in enumerate(ads):
            argv += ["-g", f"x{i}=^{a}"] if prefix else ["-a", f"x{i}={a}$"]
        argv += ["-e", str(kerr) if kerr else "0", "--no-indels", "--rename", "{id} {adapter_name}"]
        r1 = climon.run(d, argv + ["-o", "idx.fq"] + inputs, tag="idx", trace=False)
        r2 = climon.run(d, argv + ["--no-index", "-o", "noidx.fq"] + inputs, tag="noidx", trace=False)
        ctx.count("cli_pairs")
        if r1.rc != 0 or r2.rc != 0:
            ctx.count("cli_runs_failed")
            return
        a = open(os.path.join(d, "idx.fq")).read()
        b = open(os.path.join(d, "noidx.fq")).read()
        ctx.case(("cli", str(argv), str(recs[:3])))
        if a != b:
            la, lb = a.split("\n"), b.split("\n")
            j = next(i for i, (x, y) in enumerate(zip(la, lb)) if x != y)
            case = climon.case_record(argv + inputs, d, inputs)
            case["cli_k"] = k
            ctx.violation("cli-index-vs-no-index", f"default and --no-index runs differ at line {j+1}: {la[j-1:j+1]} vs {lb[j-1:j+1]}; "
                          f"adapters {ads} (pairwise distance >= {2*kerr+2}), e={kerr}; argv={argv}", case)
    finally:
        shutil.rmtree(d, ignore_errors=True)


def run_shard(ctx):
    if ctx.variant == "plain":
        for k in range(ctx.scale(6, 100)):
            cli_case(ctx, ctx.shard * 100000 + k)
    rng = ctx.rng("c08")
    n = ctx.scale(150, 8000) if ctx.variant == "plain" else ctx.scale(25, 1000)
    for i in range(n):
        if ctx.out_of_time():
            ctx.count("stopped_on_time_budget")
            break
        setd = gen_set(rng)
        if setd.get("many") and ctx.variant != "plain" and ctx.tier == "quick":
            continue    # pure-Python index code: nothing for the sanitizer to see that the small sets do not show
        run_set(ctx, rng, setd)


def replay(ctx, case):
    if case.get("cli"):
        ctx.shard = case["cli_k"] // 100000
        cli_case(ctx, case["cli_k"])
        return
    import cutadapt.adapters as A
    from cutadapt.modifiers import AdapterCutter

    setd = case["set"]
    ads = build(setd)
    prefix = setd["prefix"]
    idx = A.IndexedPrefixAdapters(ads) if prefix else A.IndexedSuffixAdapters(ads)
    perm = list(reversed(ads))
    pidx = A.IndexedPrefixAdapters(perm) if prefix else A.IndexedSuffixAdapters(perm)
    for earlier in (case.get("history") or [])[:-1]:
        idx.match_to(earlier)
    if case["read"] is not None:
        check_one(ctx, setd, ads, idx, AdapterCutter(ads, index=True), AdapterCutter(ads, index=False), case["read"], [pidx])
    ctx.san_check(case)
