"""C10 - read modifications are applied in the documented fixed order."""
import os
import shutil

from .. import climon, fastx, gen_cli as G

ID = "C10"
LEVEL = "exploration"
ENGINES = ["climon"]
TECHNIQUE = "differential observer: one combined run vs. permuted argv, vs. a chain of single-operation invocations of the real tool in the documented order, vs. single-end projections per mate; plus the hooked per-read modifier sequence (order and chain continuity)"
LEVEL_TEXT = ("For generated subsets of the read-modifying options the real tool is run (a) once with all options, (b) with the option groups "
              "in random argv orders, (c) as a chain of single-operation invocations in the documented order, each reading the previous output, "
              "and (d) for paired data as two single-end runs with each mate's projection of the options (lower-case options R1 only, upper-case "
              "R2 only, shared options both, -Q/-L overriding R2 only). (a) must equal (b) byte for byte and (c), (d) record by record; the hooked "
              "modifier events of (a) must follow the canonical class order per mate with every stage receiving exactly the previous stage's output.")
LEVEL_TEXT += ' A separate sub-case gives -u/-U values in both orders on reads shorter than both cuts and reads the order off the {cut_prefix}/{cut_suffix} (and {r1.…}/{r2.…}) placeholders of --rename; --quality-base 64 travels with every invocation of a chain.'
LEVEL_TEXT += ' Headers with a TAB between id and comment; the rename step is judged by its definition ({id}, {comment}, {header}) on the hooked events.'
LEVEL_NOTE = ("Trusted base: the real tool applied one operation at a time (each single operation is judged by C03/C13/C14/C01), independent "
              "parser. Templates that carry information across stages ({adapter_name}, {cut_prefix}) are not used in the chain; --poly-a is "
              "excluded from the R2 projection because R2 gets poly-T trimming, which has no single-end spelling.")
VARIANTS = {"quick": ["plain"], "thorough": ["plain"]}
BUDGET_S = {"quick": 200, "thorough": 3000}
FLOORS = {"quick": 300, "thorough": 8000}
RULE = ("Seeded random option subsets (2-9 stages) x inputs of 15-35 reads. Non-trivial = an option set with at least two modifying "
        "stages (order can matter); distinct by (option set, input).")
ASSUMPTIONS = ["order among repeated -u options is kept in permutations (the documentation makes it significant)"]

CANON = ["UnconditionalCutter", "NextseqQualityTrimmer", "QualityTrimmer", "AdapterCutter", "PairedAdapterCutter", "PolyATrimmer", "Shortener",
         "NEndTrimmer", "LengthTagModifier", "SuffixRemover", "PrefixSuffixAdder", "ZeroCapper", "Renamer", "PairedEndRenamer"]
AD3 = "AGATCGGAAGAGC"
AD5 = "TTAGGCATCG"


def gen_reads(rng, n, paired):
    out1, out2 = [], []
    for i in range(n):
        def one(which):
            L = rng.randint(0, 45)
            s = G.rnd(rng, L, "ACGTN" if rng.random() < 0.2 else "ACGT")
            if rng.random() < 0.5:
                s = s[:rng.randint(0, len(s))] + AD3[:rng.randint(3, 13)] + (G.rnd(rng, rng.randint(0, 8)) if rng.random() < 0.5 else "")
            if rng.random() < 0.3:
                s = G.rnd(rng, rng.randint(0, 3)) + AD5[rng.randint(0, 4):] + s
            if rng.random() < 0.3:
                s += "A" * rng.randint(3, 12)
            if rng.random() < 0.2:
                s = "N" * rng.randint(1, 3) + s + "N" * rng.randint(0, 3)
            q = "".join(chr(33 + rng.choice([2, 2, 12, 25, 40, 40, 40])) for _ in s)
            if rng.random() < 0.15:
                q = "".join(chr(rng.choice([30, 31, 35, 60, 70])) for _ in s)   # below the base: zero-cap matters
            return s, q
        tail = rng.choice(["x/1", "x/1", "x_b_a", "x_a_a", "x", "x/1/1", "t={name} x/1", "{name}"])   # headers are free text
        sep = "\t" if i % 5 == 2 else " "      # id and comment may be separated by a tab (SAM-style tags)
        s, q = one(1)
        out1.append((f"r{i}{sep}length={len(s)} {tail}", s, q))
        s, q = one(2)
        out2.append((f"r{i}{sep}length={len(s)} {tail.replace('/1', '/2')}", s, q))
    return out1, (out2 if paired else None)


def gen_stages(rng, paired):
    st = []
    if rng.random() < 0.6:
        a = rng.choice([1, 3, 5, -2, -4])
        g = ["-u", str(a)]
        if rng.random() < 0.3:
            g += ["-u", str((-1 if a > 0 else 1) * rng.randint(1, 4))]
        st.append(("cut", g))
    if paired and rng.random() < 0.4:
        st.append(("cut2", ["-U", str(rng.choice([2, -3, 1]))]))
    if rng.random() < 0.3:
        st.append(("nextseq", ["--nextseq-trim", str(rng.choice([10, 20]))]))
    if rng.random() < 0.6:
        g = ["-q", rng.choice(["10", "15,10", "20,0", "0", "0,10"])]
        if paired and rng.random() < 0.4:
            g += ["-Q", rng.choice(["5", "0", "10,20", "0,0"])]
        st.append(("qual", g))
    if rng.random() < 0.8:
        if rng.random() < 0.7:
            g = ["-a", "a3=" + AD3]
        else:
            g = ["-g", "a5=" + AD5, "-a", "a3=" + AD3, "-n", "2"]
        if paired and rng.random() < 0.5:
            g += ["-A", "b3=" + AD3]
        if rng.random() < 0.35:
            g += ["--action", rng.choice(["mask", "lowercase", "none", "retain" if "-n" not in g else "mask"])]
        st.append(("adapt", g))
    if rng.random() < 0.4:
        st.append(("polya", ["--poly-a"]))
    if rng.random() < 0.5:
        g = ["-l", str(rng.choice([5, 10, 20, -8, 0, 1]))]
        if paired and rng.random() < 0.4:
            g += ["-L", str(rng.choice([7, -3, 0, 0, 1]))]
        st.append(("length", g))
    elif paired and rng.random() < 0.15:
        st.append(("length", ["-L", str(rng.choice([9, -4, 0]))]))
    if rng.random() < 0.5:
        st.append(("trimn", ["--trim-n"]))
    if rng.random() < 0.4:
        st.append(("lengthtag", ["--length-tag", "length="]))
    if rng.random() < 0.35:
        sufs = rng.choice([["/1", "/2"], ["/1", " x"], ["_a", "_b"], ["_a", "_a"], ["/1", "/1"], ["1", "/1"], ["/2", "/1", " x"]])
        st.append(("strip", [x for sf in sufs for x in ("--strip-suffix", sf)]))
    r = rng.random()
    if r < 0.3:
        # the text is added literally except for the documented {name} placeholder; braces that are not that placeholder stay
        st.append(("xy", rng.choice([["-x", "pre_", "-y", "_suf"], ["-x", "p{{_", "-y", " }}s"], ["-y", " {{n}} }}"],
                                     ["-x", "x{{}}_"]])))     # ({name} itself carries the adapter name across stages: not in chains)
    elif r < 0.5:
        st.append(("rename", ["--rename", rng.choice(["{id} renamed {comment}", "{id} h=[{header}]", "{id} {comment} was {header}"])]))
    if rng.random() < 0.3:
        st.append(("zcap", ["--zero-cap"]))
    return st


def with_global(g, glob):
    """Options that are not operations but parameters of several operations travel with every invocation."""
    return list(g) + list(glob)


def project(stages, which):
    """Single-end spelling of what the paired command does to mate `which`; None if it has no such spelling."""
    argv = []
    for name, g in stages:
        if name == "cut":
            if which == 1:
                argv += g
        elif name == "cut2":
            if which == 2:
                argv += ["-u", g[1]]
        elif name == "qual":
            q = g[1]
            if which == 2 and "-Q" in g:
                q = g[g.index("-Q") + 1]
            argv += ["-q", q]
        elif name == "adapt":
            i = 0
            rest = []
            while i < len(g):
                if g[i] in ("-a", "-g"):
                    if which == 1:
                        rest += [g[i], g[i + 1]]
                    i += 2
                elif g[i] == "-A":
                    if which == 2:
                        rest += ["-a", g[i + 1]]
                    i += 2
                else:
                    rest += [g[i], g[i + 1]]
                    i += 2
            argv += rest
        elif name == "polya":
            if which == 2:
                return None
            argv += g
        elif name == "length":
            if which == 1:
                if "-l" in g:
                    argv += ["-l", g[g.index("-l") + 1]]
            else:
                if "-L" in g:
                    argv += ["-l", g[g.index("-L") + 1]]
                elif "-l" in g:
                    argv += ["-l", g[g.index("-l") + 1]]
        elif name == "rename":
            argv += g
        else:
            argv += g
    return argv


def read_file(d, name):
    try:
        with open(os.path.join(d, name)) as f:
            return f.read()
    except OSError:
        return None


def first_diff(a, b):
    la, lb = (a or "").split("\n"), (b or "").split("\n")
    for i, (x, y) in enumerate(zip(la, lb)):
        if x != y:
            return f"line {i+1}: {x!r} | {y!r}"
    return f"lengths {len(la)} vs {len(lb)} lines"


def check_trace(ctx, run, case, stages, paired, viol):
    groups = run.read_groups()
    if not groups:
        ctx.count("runs_without_trace")
        return
    rank = {c: i for i, c in enumerate(CANON)}
    for key, g in groups.items():
        for side in ((1, 2) if paired else (1,)):
            seq = []
            prev = g["reads"][side - 1]
            for e in g["events"]:
                if e["k"] == "mod" and ((e["side"] or 1) == side):
                    cls, i, o = e["c"], e["i"], e["o"]
                elif e["k"] == "pmod":
                    cls, i, o = e["c"], e["i"][side - 1], (e["o"][side - 1] if e["o"] else None)
                else:
                    continue
                seq.append(cls)
                if cls == "PrefixSuffixAdder" and o is not None:
                    # the step itself, by its definition: the given texts are put around the name as they are
                    xy = dict(stages).get("xy") or []
                    px = xy[xy.index("-x") + 1] if "-x" in xy else ""
                    sx = xy[xy.index("-y") + 1] if "-y" in xy else ""
                    if "{name}" not in px + sx and o[0] != px + i[0] + sx:
                        viol("prefix-suffix-step", f"read {key} side {side}: -x {px!r} -y {sx!r} turned the name {i[0]!r} into {o[0]!r}, expected {px + i[0] + sx!r}")
                if cls in ("Renamer", "PairedEndRenamer") and o is not None and dict(stages).get("rename"):
                    # the step itself, by its definition: {id} is the header up to the first white space, {comment} what
                    # follows that white space, {header} the whole header
                    tmpl = dict(stages)["rename"][1]
                    parts = i[0].split(None, 1)
                    if i[0] and not i[0][0].isspace() and not i[0][-1].isspace():
                        want_name = tmpl.format(id=parts[0], comment=parts[1] if len(parts) > 1 else "", header=i[0])
                        if o[0] != want_name:
                            viol("rename-step", f"read {key} side {side}: --rename {tmpl!r} turned the name {i[0]!r} into {o[0]!r}, expected {want_name!r}")
                        ctx.count("rename_steps_judged")
                if cls == "SuffixRemover" and o is not None and not (o[0] == i[0] or (i[0].startswith(o[0]) and i[0][len(o[0]):] in (dict(stages).get("strip") or []))):
                    viol("strip-suffix-step", f"read {key} side {side}: --strip-suffix turned {i[0]!r} into {o[0]!r}")
                if prev is not None and (i[1], i[2]) != (prev[1], prev[2]):
                    viol("stage-input-not-previous-output", f"read {key} side {side}: {cls} received {i[1]!r} but the previous stage produced {prev[1]!r}")
                prev = o
            ranks = [rank.get(c, -1) for c in seq]
            if ranks != sorted(ranks):
                viol("modifier-order", f"read {key} side {side}: modifiers ran in the order {seq}")
                return
    ctx.count("traces_checked")


def one_case(ctx, k):
    rng = ctx.rng("c10", k)
    paired = rng.random() < 0.5
    stages = gen_stages(rng, paired)
    if len(stages) < 2:
        ctx.case(None)
        return
    glob = ["--quality-base", "64"] if rng.random() < 0.15 else []
    if glob:
        ctx.count("option_sets_with_quality_base_64")
    recs1, recs2 = gen_reads(rng, rng.randint(15, 35), paired)
    d = os.path.join(ctx.scratch, f"c{k}")
    os.makedirs(d, exist_ok=True)
    try:
        inputs = climon.write_inputs(d, recs1, recs2)
        io = lambda t, ins=None: ["-o", f"{t}1.fq"] + (["-p", f"{t}2.fq"] if paired else []) + (ins or inputs)
        allopts = [x for _, g in stages for x in g] + glob
        argv = allopts + io("comb")
        case = climon.case_record(argv, d, inputs)
        case["k"] = k
        viol = lambda kind, text: ctx.violation(kind, f"{text}; stages={[n for n, _ in stages]} options={allopts} paired={paired}", case, klass=kind)
        run = climon.run(d, argv, tag="comb")
        ctx.count("option_sets")
        if run.rc != 0:
            ctx.count("runs_failed")
            ctx.extra.setdefault("failed_example", (argv, run.err[-300:]))
            ctx.case(None)
            return
        ctx.case((str(allopts), str(recs1[:2])))
        comb = (read_file(d, "comb1.fq"), read_file(d, "comb2.fq") if paired else None)
        check_trace(ctx, run, case, stages, paired, viol)
        # (b) permutations of the option groups
        for p in range(ctx.scale(3, 6)):
            gs = [g for _, g in stages]
            rng.shuffle(gs)
            # keep the relative order of the repeated options inside a group; groups themselves are permuted
            argv_p = [x for g in gs for x in g]
            argv_p = (glob + argv_p) if rng.random() < 0.5 else (argv_p + glob)
            if rng.random() < 0.5:
                # also move the io options to the front
                argv_p = io(f"p{p}")[:-len(inputs)] + argv_p + inputs
            else:
                argv_p = argv_p + io(f"p{p}")
            rp = climon.run(d, argv_p, tag=f"perm{p}", trace=False)
            ctx.count("permutation_runs")
            got = (read_file(d, f"p{p}1.fq"), read_file(d, f"p{p}2.fq") if paired else None)
            if rp.rc != 0 or got != comb:
                viol("argv-order-matters", f"permuted command line {argv_p} gives a different result (exit {rp.rc}): {first_diff(comb[0], got[0])}"
                     + (f" / R2 {first_diff(comb[1], got[1])}" if paired else ""))
                break
        # (c) chain of single-operation invocations in the documented order
        cur = list(inputs)
        ok = True
        # repeated options are separate operations applied in the order given: one invocation each
        chain = []
        for name, g in stages:
            if name == "strip":
                chain += [(name, g[j:j + 2]) for j in range(0, len(g), 2)]
            elif name == "cut" and len(g) == 4:
                chain += [(name, g[0:2]), (name, g[2:4])]
            else:
                chain.append((name, g))
        for i, (name, g) in enumerate(chain):
            outs = [f"ch{i}_1.fq"] + ([f"ch{i}_2.fq"] if paired else [])
            a = g + glob + ["-o", outs[0]] + (["-p", outs[1]] if paired else []) + cur
            rc_ = climon.run(d, a, tag=f"chain{i}", trace=False)
            ctx.count("chain_runs")
            if rc_.rc != 0:
                ctx.count("chain_stage_failed")
                ctx.extra.setdefault("chain_failed_example", (a, rc_.err[-200:]))
                ok = False
                break
            cur = outs
        if ok:
            ch = (read_file(d, cur[0]), read_file(d, cur[1]) if paired else None)
            if ch != comb:
                viol("chain-differs", f"documented-order chain of single operations differs from the combined run: R1 {first_diff(comb[0], ch[0])}"
                     + (f" / R2 {first_diff(comb[1], ch[1])}" if paired else ""))
            ctx.count("chains_compared")
        # (d) routing: each mate equals the single-end run with its projection of the options
        if paired:
            for which in (1, 2):
                pa = project(stages, which)
                if pa is None:
                    ctx.count("projection_not_expressible")
                    continue
                inp = inputs[which - 1]
                rs = climon.run(d, pa + glob + ["-o", f"se{which}.fq", inp], tag=f"se{which}", trace=False)
                if rs.rc != 0:
                    if not pa:
                        # no option applies to this mate: it must be unchanged
                        se = read_file(d, inp)
                    else:
                        ctx.count("projection_run_failed")
                        continue
                else:
                    se = read_file(d, f"se{which}.fq")
                ctx.count("routing_comparisons")
                if se != comb[which - 1]:
                    viol("routing", f"R{which} of the paired run differs from the single-end run with R{which}'s options {pa}: {first_diff(comb[which-1], se)}")
        ctx.sample(dict(stages=[n for n, _ in stages], options=allopts, paired=paired), limit=6)
    finally:
        shutil.rmtree(d, ignore_errors=True)


def cut_order_case(ctx, k):
    """-u/-U values are applied in the order given: observed through what --rename reports as {cut_prefix}/{cut_suffix}
    (the sequence alone cannot tell the order of a 5' and a 3' cut apart unless the read is shorter than both together)."""
    rng = ctx.rng("c10cut", k)
    paired = rng.random() < 0.5

    def cuts():
        a = rng.choice([1, 2, 3, 5, 7])
        b = rng.choice([1, 2, 3, 4, 6])
        r = rng.random()
        if r < 0.4:
            return [-b, a]
        if r < 0.8:
            return [a, -b]
        return [rng.choice([a, -b])]

    c1 = cuts()
    c2 = cuts() if paired and rng.random() < 0.8 else []
    n = rng.randint(10, 25)
    recs1 = [(f"r{i} c{i}", G.rnd(rng, rng.randint(0, 12)), None) for i in range(n)]
    recs1 = [(h, s_, "".join(chr(33 + rng.randint(5, 40)) for _ in s_)) for h, s_, _ in recs1]
    recs2 = None
    if paired:
        recs2 = [(f"r{i} d{i}", G.rnd(rng, rng.randint(0, 12)), None) for i in range(n)]
        recs2 = [(h, s_, "".join(chr(33 + rng.randint(5, 40)) for _ in s_)) for h, s_, _ in recs2]
    tmpl = "{id} p={cut_prefix} s={cut_suffix}" if not paired else "{id} p={r1.cut_prefix} s={r1.cut_suffix} P={r2.cut_prefix} S={r2.cut_suffix} own={cut_prefix}"
    d = os.path.join(ctx.scratch, f"u{k}")
    os.makedirs(d, exist_ok=True)
    try:
        inputs = climon.write_inputs(d, recs1, recs2)
        opts = [x for c in c1 for x in ("-u", str(c))] + [x for c in c2 for x in ("-U", str(c))]
        groups = [[x for c in c1 for x in ("-u", str(c))], [x for c in c2 for x in ("-U", str(c))], ["--rename", tmpl]]
        rng.shuffle(groups)
        argv = [x for g in groups for x in g] + ["-o", "o1.fq"] + (["-p", "o2.fq"] if paired else []) + inputs
        case = climon.case_record(argv, d, inputs)
        case["k"] = k
        case["cut_order"] = True
        run = climon.run(d, argv, tag="cut", trace=False)
        ctx.count("cut_order_runs")
        if run.rc != 0:
            ctx.count("cut_order_runs_failed")
            ctx.extra.setdefault("cut_failed_example", (argv, run.err[-300:]))
            ctx.case(None)
            return

        def apply(seq, cs):
            pre = suf = ""
            for c in cs:
                if c > 0:
                    pre, seq = seq[:c], seq[c:]
                else:
                    suf, seq = seq[c:], seq[:c]
            return seq, pre, suf

        got1 = fastx.parse_fastq(read_file(d, "o1.fq") or "", strict=False)
        got2 = fastx.parse_fastq(read_file(d, "o2.fq") or "", strict=False) if paired else None
        discriminating = False
        bad = None
        for i in range(n):
            s1, p1, f1 = apply(recs1[i][1], c1)
            if len(c1) == 2 and len(recs1[i][1]) < abs(c1[0]) + abs(c1[1]):
                discriminating = True
            if paired:
                s2, p2, f2 = apply(recs2[i][1], c2)
                if len(c2) == 2 and len(recs2[i][1]) < abs(c2[0]) + abs(c2[1]):
                    discriminating = True
                e1 = (f"r{i} p={p1} s={f1} P={p2} S={f2} own={p1}", s1)
                e2 = (f"r{i} p={p1} s={f1} P={p2} S={f2} own={p2}", s2)
            else:
                e1 = (f"r{i} p={p1} s={f1}", s1)
            if i >= len(got1) or (got1[i][0], got1[i][1]) != e1:
                bad = bad or f"record {i} of R1: expected {e1}, got {got1[i][:2] if i < len(got1) else None}"
            if paired and (i >= len(got2) or (got2[i][0], got2[i][1]) != e2):
                bad = bad or f"record {i} of R2: expected {e2}, got {got2[i][:2] if i < len(got2) else None}"
        ctx.case((str(opts), str(recs1[:3])) if discriminating else None)
        if bad:
            ctx.violation("cut-order", f"-u/-U not applied in the order given ({opts}, paired={paired}): {bad}", case, klass="cut-order")
    finally:
        shutil.rmtree(d, ignore_errors=True)


def run_shard(ctx):
    climon.require_hooks(ctx)
    for k in range(ctx.scale(45, 1200)):
        if ctx.out_of_time():
            ctx.count("stopped_on_time_budget")
            break
        one_case(ctx, ctx.shard * 100000 + k)
        if k % 3 == 0:
            cut_order_case(ctx, ctx.shard * 100000 + k)


def verdict_hook(merged, tier):
    c = merged["counters"]
    out = []
    if c.get("option_sets", 0) and c.get("runs_failed", 0) > 0.2 * c["option_sets"]:
        out.append(f"{c['runs_failed']} of {c['option_sets']} combined runs exited non-zero: {merged['extra'].get('failed_example', [''])[0]}")
    if c.get("chain_stage_failed", 0) > 0.2 * max(1, c.get("option_sets", 0)):
        out.append(f"{c['chain_stage_failed']} chains could not be completed: {merged['extra'].get('chain_failed_example', [''])[0]}")
    return out


def replay(ctx, case):
    ctx.shard = case["k"] // 100000
    if case.get("cut_order"):
        cut_order_case(ctx, case["k"])
    else:
        one_case(ctx, case["k"])
