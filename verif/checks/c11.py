"""C11 - filters use the documented criteria, in order, one destination per read."""
import os
import shutil

from .. import climon, fastx, filtermon as F

ID = "C11"
LEVEL = "exploration"
ENGINES = ["climon"]
TECHNIQUE = "reference-predicate monitor: documented criteria evaluated in the documented order on a filter-free baseline run, compared with the membership of every read id in the main output / redirect files and with the consuming step event of the trace"
LEVEL_TEXT = ("For each generated filter set a filter-free baseline run of the real tool yields every read's fully modified record and match "
              "status; reference predicates (shorter than -m, longer than -M, N count or fraction compared exactly as the decimal given, expected "
              "errors, expected errors per base, ':Y:' in the CASAVA field, adapter found / not found) are evaluated in the documented order and "
              "the first that applies names the destination. The real run must put each read id exactly there (its redirect file or nowhere), "
              "write the fully modified record, and the hooked step that consumed the read must be that filter. Thresholds are chosen from "
              "observed values and their neighbours so that '<' versus '<=' is exercised on every run.")
LEVEL_TEXT += ' The criteria are also run under the declared quality encoding (--quality-base 33 and 64) and with N fractions exactly at a decimal cut-off, through the definition-based command-line cases shared with C14; a traceback on a generated (valid) option set is a violation.'
LEVEL_TEXT += ' The same reads as unaligned BAM and as FASTQ under the same filters must give the same records and counts.'
LEVEL_TEXT += ' Redirect files whose layout differs from that of the main output.'
LEVEL_TEXT += ' --max-n also with non-integral values of 1 and more.'
LEVEL_NOTE = ("Trusted base: refmodel predicates, independent parser, unique ids; expected-error comparisons near the threshold are skipped "
              "(and counted) unless the read has Q0 qualities only, where sums are exact.")
VARIANTS = {"quick": ["plain"], "thorough": ["plain"]}
BUDGET_S = {"quick": 150, "thorough": 3000}
FLOORS = {"quick": 3000, "thorough": 100000}
RULE = ("Seeded random scenarios with 1-8 filter options each. Non-trivial = the read (pair) was consumed by a filter in the reference "
        "prediction; distinct by (filter arguments, processed records of the read).")
ASSUMPTIONS = ["the baseline run (same modifiers, --rename tagging the last adapter) yields the records the filters see",
               "cases where the exact decimal and a float comparison could differ are skipped and counted"]


def evaluate(ctx, sc):
    run, case, argv = sc.run, sc.case, sc.argv
    viol = lambda kind, text, **facts: ctx.violation(kind, f"{text}; filter args={sc.fargs} paired={sc.paired} argv={argv}", case, facts=facts, klass=facts.get("fate"))
    if run.rc != 0:
        if "Traceback" in run.err:
            # the option set is valid (the generator only builds documented combinations): an internal error is not a refusal
            viol("run-crashed", f"exit {run.rc} with a traceback: {run.err.strip().splitlines()[-1][:200]}")
            return
        ctx.count("runs_failed")
        ctx.extra.setdefault("failed_example", (argv, run.err[-300:]))
        return
    for dest, (r1, r2) in sc.files.items():
        if r1 is None or r1[0] == "error" or (r2 is not None and r2[0] == "error"):
            viol("output-file", f"output for {dest} missing or unparseable: {r1 if r1 is None else r1[1] if r1[0] == 'error' else r2[1]}")
            return
    groups = run.read_groups()
    records = {}
    for dest, (r1, r2) in sc.files.items():
        for i, rec in enumerate(r1[1]):
            records[(dest, fastx.rid(rec[0]))] = (rec, r2[1][i] if r2 is not None and i < len(r2[1]) else None)
    for idx, key in enumerate(sc.order):
        fate = sc.fates[key]
        b1 = sc.base[1][idx]
        b2 = sc.base[2][idx] if sc.paired else None
        dests = sc.membership.get(key, [])
        if fate == "skip":
            ctx.count("reads_skipped_borderline")
            ctx.case(None)
            continue
        nontrivial = fate != "out"
        ctx.case((" ".join(sc.fargs), b1["seq"], b1["qual"], b1["name"], b2["seq"] if b2 else None, fate) if nontrivial else None)
        ctx.count("fate:" + fate)
        expect = fate if fate in sc.layout else None   # None: discarded
        if expect is None and fate == "out":
            expect = "out"
        if expect is None:
            if dests:
                viol("discarded-read-written", f"read {key}: reference fate {fate} (discarded) but found in {dests}; processed R1={b1['seq']!r} q={b1['qual']!r} name={b1['name']!r}"
                     + (f" R2={b2['seq']!r}" if b2 else ""), fate=fate)
        else:
            if dests != [expect]:
                viol("wrong-destination", f"read {key}: reference fate {fate} -> {expect}, found in {dests or 'no file'}; processed R1={b1['seq']!r} q={b1['qual']!r} "
                     f"name={b1['name']!r} trimmed={b1['trimmed']}" + (f" R2={b2['seq']!r} trimmed={b2['trimmed']}" if b2 else ""), fate=fate)
            else:
                rec1, rec2 = records[(expect, key)]
                if (rec1[1], rec1[2]) != (b1["seq"], b1["qual"]) or (b2 is not None and rec2 is not None and (rec2[1], rec2[2]) != (b2["seq"], b2["qual"])):
                    viol("not-fully-modified", f"read {key} in {expect}: written {rec1[1]!r}, the fully modified read is {b1['seq']!r}", fate=fate)
        # consuming step of the trace
        g = groups.get(key)
        if g is not None:
            steps = [e for e in g["events"] if e["k"] == "step"]
            consumed = [e for e in steps if e["consumed"]]
            if len(consumed) != 1 or steps[-1] is not consumed[0]:
                viol("steps-after-consumption", f"read {key}: step events {[(e['c'], e['ident'], e['consumed']) for e in steps]}", fate=fate)
            elif fate != "out" and consumed[0]["ident"] != fate:
                viol("consumed-by-other-filter", f"read {key}: reference says {fate}, consumed by {consumed[0]['c']}({consumed[0]['ident']})", fate=fate)
            elif fate == "out" and consumed[0]["c"] not in ("SingleEndSink", "PairedEndSink"):
                viol("consumed-by-other-filter", f"read {key}: reference says written, consumed by {consumed[0]['c']}({consumed[0]['ident']})", fate=fate)
            ctx.count("step_events_checked")


def one_case(ctx, k):
    rng = ctx.rng("c11", k)
    d = os.path.join(ctx.scratch, f"c{k}")
    os.makedirs(d, exist_ok=True)
    try:
        sc = F.observe(ctx, rng, d, dict(demux=None, trace=True, paired_p=0.45, interleaved_p=0.2, mixed_layout_p=0.35))
        if sc is None:
            return
        sc.case["k"] = k
        ctx.count("runs")
        evaluate(ctx, sc)
        ctx.sample(dict(argv=sc.argv, fates={f: list(sc.fates.values()).count(f) for f in set(sc.fates.values())}), limit=5)
    finally:
        shutil.rmtree(d, ignore_errors=True)


def bam_case(ctx, k):
    """The criteria do not depend on the container the reads come in: the same reads as unaligned BAM and as FASTQ, the same
    filter options - the same reads written and the same counts (the FASTQ path is what the reference cases judge)."""
    import json
    from .. import gen_cli as G, clirun

    rng = ctx.rng("c11bam", k)
    recs = []
    for i in range(rng.randint(8, 40)):
        n = rng.randint(1, 40)
        s = G.rnd(rng, n, rng.choice(["ACGT", "ACGTN", "ACGTNN"]))
        recs.append((f"r{i}", s, G.gen_quals(rng, n, rng.choice(["high", "mixed", "decay", "full", "q0"]))))
    opts = []
    if rng.random() < 0.6:
        opts += ["--max-ee", rng.choice(["0", "0.5", "1", "2", "5"])]
    if rng.random() < 0.5:
        opts += ["--max-aer", rng.choice(["0.01", "0.1", "0.3"])]
    if rng.random() < 0.4:
        opts += ["--max-n", rng.choice(["0", "1", "0.2"])]
    if rng.random() < 0.4:
        opts += ["-m", str(rng.randint(2, 25))]
    if rng.random() < 0.3:
        opts += ["-M", str(rng.randint(15, 40))]
    if not opts:
        opts = ["--max-ee", "1"]
    if rng.random() < 0.3:
        opts = ["-q", "15"] + opts
    cores = ["-j", "2"] if rng.random() < 0.3 else []
    d = os.path.join(ctx.scratch, f"bam{k}")
    os.makedirs(d, exist_ok=True)
    try:
        with open(os.path.join(d, "in.fastq"), "w") as f:
            f.write(fastx.format_fastq(recs))
        with open(os.path.join(d, "in.bam"), "wb") as f:
            f.write(fastx.format_ubam(recs))
        res = {}
        for kind in ("fastq", "bam"):
            argv = opts + cores + ["--json", f"{kind}.json", "-o", f"{kind}.out.fastq", f"in.{kind}"]
            r = clirun.run(argv, d, tag=kind, timeout=90)
            res[kind] = (r, argv)
        ctx.count("bam_cases")
        case = dict(kind="bam", k=k, argv=res["bam"][1])
        ctx.case(("bam", str(opts), str(recs[:3])))
        if res["fastq"][0].rc != 0:
            ctx.count("bam_case_fastq_run_failed")
            return
        if res["bam"][0].rc != 0:
            ctx.violation("bam-run-failed", f"exit {res['bam'][0].rc} for BAM input although the same reads as FASTQ are processed: "
                          f"{res['bam'][0].err.strip().splitlines()[-1][:200] if res['bam'][0].err.strip() else ''}; argv={res['bam'][1]}", case, klass="bam")
            return
        a = open(os.path.join(d, "fastq.out.fastq")).read()
        b = open(os.path.join(d, "bam.out.fastq")).read()
        ja = json.load(open(os.path.join(d, "fastq.json")))["read_counts"]
        jb = json.load(open(os.path.join(d, "bam.json")))["read_counts"]
        if a != b or ja != jb:
            ra, rb = fastx.parse_fastq(a, strict=False), fastx.parse_fastq(b, strict=False)
            only_b = [x[0] for x in rb if x not in ra][:5]
            only_a = [x[0] for x in ra if x not in rb][:5]
            ctx.violation("bam-vs-fastq", f"the same reads and filters give different results for FASTQ and BAM input: only with FASTQ {only_a}, only with BAM {only_b}; "
                          f"counts {ja['filtered']} vs {jb['filtered']}; argv={res['bam'][1]}", case, klass="bam")
    finally:
        shutil.rmtree(d, ignore_errors=True)


def run_shard(ctx):
    climon.require_hooks(ctx)
    for k in range(ctx.scale(90, 3000)):
        if ctx.out_of_time():
            ctx.count("stopped_on_time_budget")
            break
        one_case(ctx, ctx.shard * 100000 + k)
    # the criteria themselves under the declared quality encoding (--quality-base 33/64): definition-based, shared with C14
    from . import c14
    for k in range(ctx.scale(10, 150)):
        c14.cli_case(ctx, ctx.shard * 100000 + 50000 + k)
    for k in range(ctx.scale(5, 80)):
        c14.cli_pair_case(ctx, ctx.shard * 100000 + 50000 + k)
    for k in range(ctx.scale(6, 100)):
        bam_case(ctx, ctx.shard * 100000 + 80000 + k)


def verdict_hook(merged, tier):
    c = merged["counters"]
    if c.get("runs", 0) and (c.get("runs_failed", 0) + c.get("baseline_failed", 0)) > 0.2 * c["runs"]:
        return [f"{c.get('runs_failed', 0)}+{c.get('baseline_failed', 0)} of {c['runs']} runs exited non-zero: {merged['extra'].get('failed_example', [''])[0]}"]
    return []


def replay(ctx, case):
    ctx.shard = case["k"] // 100000
    if case.get("kind") in ("cli", "clipair"):
        from . import c14
        (c14.cli_case if case["kind"] == "cli" else c14.cli_pair_case)(ctx, case["k"])
        return
    if case.get("kind") == "bam":
        bam_case(ctx, case["k"])
        return
    one_case(ctx, case["k"])
