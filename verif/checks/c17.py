"""C17 - the info file locates every match and reconstructs every read."""
import os
import shutil

from .. import climon, fastx, gen_cli as G, refmodel as R

ID = "C17"
LEVEL = "exploration"
ENGINES = ["climon"]
TECHNIQUE = "offline checker over --info-file rows joined to the input reads by unique id and to the hooked adapter-stage events (matches actually applied, with coordinates and error counts) of the same real run"
LEVEL_TEXT = ("Real single-end runs with --info-file over generated option sets (-u with positive and negative lengths, -q with 5' and 3' "
              "cutoffs, --nextseq-trim, --times, --revcomp, linked adapters, filters in half of the runs, default action). For every input read: "
              "at least one row, reads in input order; no match => exactly one row with -1; matches => one row per match in the order found "
              "(linked ;1 then ;2); fields 5-7 concatenate to the input read (reverse-complemented if flagged) or to what the previous round left; "
              "field 6 is the stretch between the reported coordinates and equals the stretch the hook recorded as aligned to the named adapter "
              "with the reported error count; quality fields split at the same coordinates.")
LEVEL_TEXT += ' The full quality range (Q1 is a double quote), empty and odd adapter names, and the R1 rows of paired runs (with --pair-adapters and every action) against R1 as read from the input.'
LEVEL_TEXT += ' In paired runs the R1 rows must not depend on the action.'
LEVEL_NOTE = ("Trusted base: independent parser, unique ids, refmodel.revcomp; the hooked match list of the adapter stage (if the hook is "
              "missing the 'aligned stretch' clause is inconclusive). The sequence column of no-match rows is not judged. Paired-end data is "
              "documented as unsupported by the info file: in paired runs (with and without --pair-adapters, every action) only the rows of R1 are judged, against R1 as read from the input.")
VARIANTS = {"quick": ["plain"], "thorough": ["plain"]}
BUDGET_S = {"quick": 150, "thorough": 3000}
FLOORS = {"quick": 2000, "thorough": 60000}
RULE = ("Seeded random option sets x inputs of 15-45 reads with planted adapters. Non-trivial = the read has at least one match row; "
        "distinct by (options, input record).")
ASSUMPTIONS = ["read ids are unique", "actions trim, mask, none and retain (the rows describe the matches, not the action); lowercase and crop are not generated"]


def gen_case(rng):
    kinds = ["a", "a", "g", "b", "a$", "g^", "aX", "gX", "linked", "linked", "rightmost"]
    ads = [G.gen_adapter(rng, i, kinds=kinds) for i in range(rng.randint(1, 3))]
    if rng.random() < 0.12:
        # adapter names are free text: the empty name, a name that reads like a placeholder of the file
        a = rng.choice(ads)
        a["name"] = rng.choice(["", "", "none", "-1"])
        a["argv"] = [a["flag"], f"{a['name']}={a['spec']}"]
    fmt = "fastq" if rng.random() < 0.85 else "fasta"
    pre = []
    if rng.random() < 0.45:
        pre += ["-u", str(rng.choice([1, 2, 3, 5, -1, -3, -4]))]
        if rng.random() < 0.25:
            pre += ["-u", str(-int(pre[-1]) // abs(int(pre[-1])) * rng.randint(1, 3))]
    if fmt == "fastq" and rng.random() < 0.4:
        pre += ["-q", rng.choice(["10", "20", "15,10", "20,0", "10,20"])]
    if fmt == "fastq" and rng.random() < 0.2:
        pre += ["--nextseq-trim", "15"]
    times = rng.choice([1, 1, 2, 3])
    revcomp = rng.random() < 0.3
    adopts = [x for a in ads for x in a["argv"]] + ["-n", str(times), "-e", rng.choice(["0.1", "0.2"]), "-O", str(rng.choice([2, 3, 4]))]
    if revcomp:
        adopts += ["--revcomp"]
    if rng.random() < 0.25:
        adopts += ["--no-indels"]
    action = rng.choice(["trim", "trim", "trim", "mask", "none", "retain", "lowercase"])
    if action == "retain" and times > 1:
        action = "mask"
    if action != "trim":
        adopts += ["--action", action]
    filt = []
    if rng.random() < 0.5:
        if rng.random() < 0.6:
            filt += ["-m", str(rng.randint(5, 25))]
        if rng.random() < 0.4:
            filt += [rng.choice(["--discard-untrimmed", "--discard-trimmed"])]
        if rng.random() < 0.3:
            filt += ["--max-n", "0"]
        if rng.random() < 0.3:
            filt += ["-M", str(rng.randint(10, 35))]
        if rng.random() < 0.3:
            filt += ["--discard-casava"]
        if rng.random() < 0.2 and fmt == "fastq":
            filt += ["--max-ee", rng.choice(["0.5", "2"])]
    post = []
    if rng.random() < 0.2:
        post += ["--trim-n"]
    if rng.random() < 0.2:
        post += ["-l", "20"]
    cores = rng.choice([1, 1, 1, 2])
    feats = dict(maxlen=45, nruns=True, revcomp_some=revcomp, lower=rng.random() < 0.25, qual_profile=rng.choice(["decay", "mixed", "high", "decay", "full"]), header="casava" if "--discard-casava" in filt else rng.choice(["plain", "comment", "casava"]))
    recs, _ = G.gen_reads(rng, rng.randint(15, 45), False, ads, **feats)
    return dict(ads=ads, fmt=fmt, pre=pre, adopts=adopts, filt=filt, post=post, times=times, revcomp=revcomp, cores=cores, recs=recs)


def parse_info(text):
    rows = []
    for line in text.split("\n"):
        if line == "":
            continue
        rows.append(line.split("\t"))
    return rows


def offset_candidates(outer, inner):
    """All p with inner == outer[p:p+len(inner)] for sequence and qualities."""
    L = len(inner[1])
    res = []
    for p in range(len(outer[1]) - L + 1):
        if outer[1][p:p + L] == inner[1] and (outer[2] is None or inner[2] is None or outer[2][p:p + L] == inner[2]):
            res.append(p)
    return res


def flat_matches(matches):
    """[(suffix, match dict)] in row order; linked matches contribute ;1 / ;2 rows."""
    out = []
    for m in matches:
        if m["kind"] == "linked":
            if m["front"] is not None:
                out.append((";1", m["front"], m["name"]))
            if m["back"] is not None:
                out.append((";2", m["back"], m["name"]))
        else:
            out.append(("", m, m["name"]))
    return out


def evaluate(ctx, c, case, run):
    viol = lambda kind, text, **facts: ctx.violation(kind, f"{text}; argv={case['argv']}", case, facts=facts, klass=kind + str(facts.get("removed_5p_before_adapters", 0) > 0))
    try:
        with open(run.path("info.tsv")) as f:
            rows = parse_info(f.read())
    except OSError:
        viol("info-missing", "no info file written")
        return
    by_id = {}
    order = []
    for r in rows:
        key = fastx.rid(r[0])
        if key not in by_id:
            by_id[key] = []
            order.append(key)
        elif order[-1] != key:
            viol("info-rows-not-contiguous", f"rows of read {key} are not contiguous")
        by_id[key].append(r)
    in_order = [fastx.rid(r[0]) for r in c["recs"]]
    if [k for k in order if k in set(in_order)] != [k for k in in_order if k in by_id]:
        viol("info-order", f"reads appear in the info file in another order than in the input: {order[:10]} vs {in_order[:10]}")
    groups = run.read_groups()
    hooks = bool(groups)
    for name, s, q in c["recs"]:
        key = fastx.rid(name)
        rws = by_id.get(key)
        if not rws:
            ctx.case(("norow", key))
            viol("info-no-row", f"input read {key} has no row in the info file (filters: {c['filt']})")
            continue
        g = groups.get(key)
        matches = None
        stage_in = None
        is_rc = None
        if g is not None:
            matches = []
            for e in g["events"]:
                if e["k"] == "mod" and e["c"] in climon.probe.ADAPTER_STAGE:
                    matches = e.get("matches", [])
                    stage_in = e["i"]
                    is_rc = e.get("rc")
        match_rows = [r for r in rws if len(r) > 1 and r[1] != "-1"]
        ctx.case((" ".join(case["argv"][:-3]), s, q) if match_rows else None)
        if matches is not None:
            flat = flat_matches(matches)
            if not flat:
                if len(rws) != 1 or rws[0][1] != "-1":
                    viol("info-nomatch-rows", f"read {key} has no match but rows {[r[:4] for r in rws]}")
                continue
            if len(match_rows) != len(rws):
                viol("info-mixed-rows", f"read {key} has matches but also a -1 row")
            if len(match_rows) != len(flat):
                viol("info-row-count", f"read {key}: {len(flat)} matches applied (linked parts counted separately) but {len(match_rows)} rows")
                continue
        elif not match_rows:
            continue
        # reconstruct
        rc_flag = match_rows[0][11] if len(match_rows[0]) > 11 else ""
        cur_s, cur_q = s, (q if c["fmt"] == "fastq" else "")
        if rc_flag == "1":
            cur_s, cur_q = R.revcomp(s), cur_q[::-1]
        if c["revcomp"] and rc_flag not in ("0", "1"):
            viol("info-rc-flag", f"read {key}: --revcomp used but flag column is {rc_flag!r}")
        if not c["revcomp"] and rc_flag != "":
            viol("info-rc-flag", f"read {key}: --revcomp not used but flag column is {rc_flag!r}")
        if matches is not None and is_rc is not None and (rc_flag == "1") != bool(is_rc):
            viol("info-rc-flag", f"read {key}: flag {rc_flag!r} but the stage chose rc={is_rc}")
        # offset between the stored original read (in the row's orientation) and the read the adapter stage searched
        removed_5p = None
        if stage_in is not None:
            I = stage_in
            if rc_flag == "1":
                I = [I[0], R.revcomp(I[1]), None if I[2] is None else I[2][::-1]]
            cands = offset_candidates(["", cur_s, cur_q if c["fmt"] == "fastq" else None], I)
            if len(cands) == 1:
                removed_5p = cands[0]
            elif len(cands) > 1:
                ctx.count("offset_ambiguous")
        flat = flat_matches(matches) if matches is not None else [None] * len(match_rows)
        offset_in_cur = 0   # how far the current remainder is from the start of the searched read, for linked parts
        for ri, r in enumerate(match_rows):
            if len(r) < 12:
                viol("info-columns", f"read {key}: match row has {len(r)} columns")
                break
            try:
                errors, start, end = int(r[1]), int(r[2]), int(r[3])
            except ValueError:
                viol("info-columns", f"read {key}: non-integer coordinates {r[1:4]}")
                break
            facts = dict(removed_5p_before_adapters=removed_5p or 0, round=ri, rc=rc_flag == "1")
            if r[4] + r[5] + r[6] != cur_s:
                viol("info-concat", f"read {key} row {ri}: fields 5-7 give {r[4] + r[5] + r[6]!r}, expected {cur_s!r} "
                     f"({'input read' if ri == 0 else 'what the previous round left'}{', reverse-complemented' if rc_flag == '1' else ''})", **facts)
            elif r[5] != cur_s[start:end] or r[4] != cur_s[:start]:
                viol("info-coordinates", f"read {key} row {ri}: middle field {r[5]!r} is not [{start}:{end}] of {cur_s!r}", **facts)
            if c["fmt"] == "fastq":
                if r[8] + r[9] + r[10] != cur_q or r[9] != cur_q[start:end]:
                    viol("info-quals", f"read {key} row {ri}: quality fields {r[8]!r}+{r[9]!r}+{r[10]!r} do not split {cur_q!r} at [{start}:{end}]", **facts)
            elif r[8] or r[9] or r[10]:
                viol("info-quals", f"read {key}: FASTA input but quality fields are not empty")
            fm = flat[ri]
            if fm is not None:
                suffix, m, mname = fm
                if r[7] != mname + suffix:
                    viol("info-adapter-name", f"read {key} row {ri}: adapter column {r[7]!r}, applied match is {mname + suffix!r}")
                if (errors, start, end) != (m["errors"], m["rstart"], m["rstop"]):
                    viol("info-match-fields", f"read {key} row {ri}: row says errors/start/end {errors}/{start}/{end}, applied match {m['errors']}/{m['rstart']}/{m['rstop']}", **facts)
                aligned = m["seq"][m["rstart"]:m["rstop"]]
                if removed_5p is not None and r[5].upper() != aligned.upper():
                    viol("info-middle", f"read {key} row {ri}: middle field {r[5]!r} is not the stretch aligned to {mname} ({aligned!r}, {m['errors']} errors); "
                         f"{removed_5p} bases were removed from this end before adapter trimming", **facts)
                kind = m["kind"]
            else:
                kind = None
            ctx.count("match_rows_checked")
            # what this round leaves
            if kind == "before" or (kind is None and ri + 1 < len(match_rows) and match_rows[ri + 1][4] + match_rows[ri + 1][5] + match_rows[ri + 1][6] == cur_s[end:]):
                cur_s, cur_q = cur_s[end:], cur_q[end:]
            else:
                cur_s, cur_q = cur_s[:start], cur_q[:start]
            if removed_5p is not None and kind == "before":
                # after a 5' trim the remainder of the stored read and of the searched read are aligned again
                # only if the offset was zero; keep the offset for later rounds
                pass
        if match_rows:
            ctx.sample(dict(argv=case["argv"], read=(name, s, q), rows=[r[:8] for r in rws]), limit=4)
    ctx.extra["hooks"] = hooks


def one_case(ctx, k):
    rng = ctx.rng("c17", k)
    c = gen_case(rng)
    d = os.path.join(ctx.scratch, f"c{k}")
    os.makedirs(d, exist_ok=True)
    try:
        inputs = climon.write_inputs(d, c["recs"], None, c["fmt"])
        argv = c["pre"] + c["adopts"] + c["filt"] + c["post"] + (["-j", "2", "--buffer-size", "1200"] if c["cores"] > 1 else []) + ["--info-file", "info.tsv", "-o", "out.fq" if c["fmt"] == "fastq" else "out.fa"] + inputs
        case = climon.case_record(argv, d, inputs)
        case["k"] = k
        run = climon.run(d, argv, tag="main")
        ctx.count("runs")
        if c["revcomp"]:
            ctx.count("revcomp_runs")
        if any(x in c["pre"] for x in ("-u", "-q", "--nextseq-trim")):
            ctx.count("runs_with_pre_adapter_trimming")
        if run.rc != 0:
            ctx.count("runs_failed")
            ctx.extra.setdefault("failed_example", (argv, run.err[-300:]))
            return
        evaluate(ctx, c, case, run)
    finally:
        shutil.rmtree(d, ignore_errors=True)


def paired_case(ctx, k):
    """Paired-end runs: the info file describes R1 only (documented). Its rows must still locate the match in, and
    reconstruct, R1 as it was read from the input - whatever is done to R2 and whichever action is used."""
    rng = ctx.rng("c17p", k)
    simple = ["a", "g", "a$", "g^"]
    n_ad = rng.randint(1, 2)
    ads1 = [G.gen_adapter(rng, i, kinds=simple, minlen=6) for i in range(n_ad)]
    pair_adapters = rng.random() < 0.5
    ads2 = [G.gen_adapter(rng, i, upper=True, prefix="bd", kinds=simple, minlen=6) for i in range(n_ad if pair_adapters else rng.randint(0, 2))]
    action = rng.choice(["trim", "lowercase", "lowercase", "mask", "none", "retain"])
    argv = [x for a in ads1 + ads2 for x in a["argv"]] + ["-e", "0.1", "-O", "4"] + (["--pair-adapters"] if pair_adapters else [])
    if action != "trim":
        argv += ["--action", action]
    recs1, recs2 = G.gen_reads(rng, rng.randint(15, 40), True, ads1, ads2 or ads1, maxlen=40, lower=True, qual_profile=rng.choice(["full", "mixed", "high"]),
                               header=rng.choice(["plain", "comment"]))
    d = os.path.join(ctx.scratch, f"p{k}")
    os.makedirs(d, exist_ok=True)
    try:
        inputs = climon.write_inputs(d, recs1, recs2)
        argv += ["--info-file", "info.tsv", "-o", "o1.fq", "-p", "o2.fq"] + inputs
        case = climon.case_record(argv, d, inputs)
        case.update(k=k, kind="paired")
        run = climon.run(d, argv, tag="main", trace=False)
        ctx.count("paired_runs")
        if run.rc != 0:
            ctx.count("runs_failed")
            return
        with open(run.path("info.tsv")) as f:
            rows = parse_info(f.read())
        by_id = {}
        for r in rows:
            by_id.setdefault(fastx.rid(r[0]), []).append(r)
        if action != "trim":
            # the rows describe the matches, not what the action does with them: the same command with the default action
            # must list the same matches (errors, coordinates, adapter) for every read
            argv_t = [x for i, x in enumerate(argv) if x != "--action" and (i == 0 or argv[i - 1] != "--action")]
            argv_t = [("info_t.tsv" if x == "info.tsv" else "t1.fq" if x == "o1.fq" else "t2.fq" if x == "o2.fq" else x) for x in argv_t]
            run_t = climon.run(d, argv_t, tag="trim", trace=False)
            if run_t.rc == 0:
                with open(run_t.path("info_t.tsv")) as f:
                    rows_t = parse_info(f.read())
                by_t = {}
                for r in rows_t:
                    by_t.setdefault(fastx.rid(r[0]), []).append(r)
                key_of = lambda rws: [(r[1], r[2], r[3], r[7]) if len(r) > 7 and r[1] != "-1" else ("-1",) for r in rws]
                for name, s, q in recs1:
                    k_ = fastx.rid(name)
                    if key_of(by_id.get(k_, [])) != key_of(by_t.get(k_, [])):
                        ctx.violation("info-rows-depend-on-action", f"pair {k_}: rows with --action={action}: {key_of(by_id.get(k_, []))}, with the default action: "
                                      f"{key_of(by_t.get(k_, []))}; argv={argv}", case, facts=dict(paired=True), klass="actionpaired")
                        break
                ctx.count("paired_runs_compared_with_the_default_action")
        for name, s, q in recs1:
            key = fastx.rid(name)
            rws = by_id.get(key)
            viol = lambda kind, text: ctx.violation(kind, f"{text}; argv={argv}", case, facts=dict(paired=True), klass=kind + "paired")
            if not rws:
                ctx.case(("norow", key))
                viol("info-no-row", f"R1 of pair {key} has no row in the info file")
                continue
            mrows = [r for r in rws if len(r) > 1 and r[1] != "-1"]
            ctx.case((" ".join(argv[:-6]), s, q) if mrows else None)
            if len(rws) != 1:
                viol("info-row-count", f"pair {key}: {len(rws)} rows for one round of single adapters")
                continue
            if not mrows:
                continue
            r = mrows[0]
            if len(r) < 11:
                viol("info-columns", f"pair {key}: match row has {len(r)} columns")
                continue
            start, end = int(r[2]), int(r[3])
            if r[4] + r[5] + r[6] != s:
                viol("info-concat", f"pair {key}: fields 5-7 give {r[4] + r[5] + r[6]!r}, R1 as read from the input is {s!r}")
            elif r[5] != s[start:end]:
                viol("info-coordinates", f"pair {key}: middle field {r[5]!r} is not [{start}:{end}] of {s!r}")
            if r[8] + r[9] + r[10] != q or r[9] != q[start:end]:
                viol("info-quals", f"pair {key}: quality fields {r[8]!r}+{r[9]!r}+{r[10]!r} do not split {q!r} at [{start}:{end}]")
            ctx.count("paired_match_rows_checked")
    finally:
        shutil.rmtree(d, ignore_errors=True)


def run_shard(ctx):
    climon.require_hooks(ctx)
    for k in range(ctx.scale(10, 300)):
        paired_case(ctx, ctx.shard * 100000 + 60000 + k)
    for k in range(ctx.scale(90, 3000)):
        if ctx.out_of_time():
            ctx.count("stopped_on_time_budget")
            break
        one_case(ctx, ctx.shard * 100000 + k)


def verdict_hook(merged, tier):
    c = merged["counters"]
    if c.get("runs", 0) and c.get("runs_failed", 0) > 0.2 * c["runs"]:
        return [f"{c['runs_failed']} of {c['runs']} runs exited non-zero: {merged['extra'].get('failed_example', [''])[0]}"]
    return []


def replay(ctx, case):
    ctx.shard = case["k"] // 100000
    if case.get("kind") == "paired":
        paired_case(ctx, case["k"])
        return
    one_case(ctx, case["k"])
