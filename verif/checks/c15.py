"""C15 - demultiplexing puts every read into the file of its adapter."""
import collections
import os
import shutil

from .. import climon, fastx, filtermon as F

ID = "C15"
LEVEL = "exploration"
ENGINES = ["climon"]
TECHNIQUE = "offline checker over the set of created files and their records vs. last-match names from a tagged baseline run + differential run of the same command with a plain -o (multiset equality)"
LEVEL_TEXT = ("Real runs with {name} (single and paired) and {name1}/{name2} in the output path, with and without --discard-untrimmed / "
              "--untrimmed-output and filters, 1-3 cores. A file must exist for every adapter name (every name combination, plus the "
              "'unknown' ones unless --discard-untrimmed) even if it stays empty; every read that passes the filters must be in the file named "
              "after its last match on R1 (pair of last matches), as read off a baseline run that tags each read with {adapter_name}; the "
              "multiset of records over all demultiplexed files must equal the main output of the same command with a plain -o.")
LEVEL_TEXT += " Each file's records are compared with the right mate's record of the baseline (not only the read id), adapter names contain punctuation, collide after punctuation is mapped to '_', or are literally 'unknown'; a run that is refused only with several cores is a violation."
LEVEL_TEXT += ' Placeholders in directory components or at the start of the template (differential against the plain placement), the empty adapter name, paired --revcomp scenarios.'
LEVEL_TEXT += " Under --pair-adapters with an adapter shared by two ranks the reference name comes from the partner's rank."
LEVEL_NOTE = ("Trusted base: independent parser, unique ids, the baseline's {adapter_name} tag (last match), file names derived from the "
              "template by plain string replacement.")
VARIANTS = {"quick": ["plain"], "thorough": ["plain"]}
BUDGET_S = {"quick": 150, "thorough": 3000}
FLOORS = {"quick": 2000, "thorough": 60000}
RULE = ("Seeded random demultiplexing scenarios with 1-3 named adapters on R1 (and R2), --times 1-2. Non-trivial = the read passed the "
        "filters and was routed by the demultiplexer (to a named file, unknown, the untrimmed file, or discarded as untrimmed); distinct by "
        "(template kind, adapter names of both mates, processed records).")
ASSUMPTIONS = ["two adapters may share a name (variants of one barcode): their reads belong in the same file", "the differential plain-output run is made only when no trimmed/untrimmed option is used"]


def evaluate(ctx, sc, d):
    run, case, argv = sc.run, sc.case, sc.argv
    viol = lambda kind, text, **facts: ctx.violation(kind, f"{text}; argv={argv}", case, facts=dict(facts, demux=sc.demux), klass=kind)
    if run.rc != 0:
        if "Traceback" in run.err:
            viol("run-crashed", run.err.strip().splitlines()[-1][:200])
        else:
            ctx.count("runs_failed")
            ctx.extra.setdefault("failed_example", (argv, run.err[-300:]))
            if sc.cores > 1:
                # "one core and several": a command that one core carries out must not be refused with several
                r1 = climon.run(d, F.main_argv(sc, sc.report, 1, extra=sc.side), tag="again1", trace=False, timeout=120)
                ctx.count("refused_multicore_runs_repeated_with_one_core")
                if r1.rc == 0:
                    viol("refused-only-with-several-cores", f"exit {run.rc} with {sc.cores} cores ({run.err.strip().splitlines()[-1][:160] if run.err.strip() else ''}) "
                         "but the same command succeeds with one core")
        return
    # every expected file exists, no unexpected demultiplexed file
    for dest, (f1, f2) in sc.layout.items():
        for f in (f1, f2):
            if f and not os.path.exists(os.path.join(d, f)):
                viol("file-not-created", f"no file {f} for destination {dest} (files are created even if they stay empty)")
    expected_files = {f for pair in sc.layout.values() for f in pair if f}
    for f in os.listdir(d):
        if (f.startswith("dm.") or f.startswith("cb.")) and f not in expected_files:
            viol("unexpected-file", f"file {f} was created but no adapter name (combination) maps to it")
    for dest, (r1, r2) in sc.files.items():
        if r1 is None or r1[0] == "error" or (r2 is not None and r2[0] == "error"):
            viol("output-file", f"output for {dest} missing or unparseable")
            return
    # what each file holds for a read: the record of the right mate, as the baseline run produced it
    content = {}
    for dest, (r1, r2) in sc.files.items():
        for i, rec in enumerate(r1[1]):
            mate = r2[1][i] if (r2 is not None and i < len(r2[1])) else None
            content[(dest, fastx.rid(rec[0]))] = (rec, mate)
        if r2 is not None and len(r2[1]) != len(r1[1]):
            viol("output-file", f"the two files of destination {dest} hold {len(r1[1])} and {len(r2[1])} records")
    for idx, key in enumerate(sc.order):
        fate = sc.fates[key]
        b1 = sc.base[1][idx]
        b2 = sc.base[2][idx] if sc.paired else None
        dests = sc.membership.get(key, [])
        if fate == "skip":
            ctx.case(None)
            continue
        routed = fate.startswith("demux:") or fate in ("untrimmed_file", "discard_untrimmed")
        ctx.case((sc.demux, b1["adapter"], b2["adapter"] if b2 else None, b1["seq"], b2["seq"] if b2 else None, fate) if routed else None)
        if routed:
            ctx.count("routed:" + ("named" if fate.startswith("demux:") and "unknown" not in fate else fate if not fate.startswith("demux:") else "unknown"))
        expect = fate if fate in sc.layout else None
        if expect is None and dests:
            viol("routed-wrongly", f"read {key}: reference fate {fate} (not written) but found in {dests}; last match R1={b1['adapter']}" + (f" R2={b2['adapter']}" if b2 else ""))
        elif expect is not None and dests != [expect]:
            viol("routed-wrongly", f"read {key}: last match R1={b1['adapter']}" + (f" R2={b2['adapter']}" if b2 else "") + f" -> {expect}, found in {dests or 'no file'}")
        elif expect is not None:
            rec, mate = content[(expect, key)]
            if rec[1] != b1["seq"]:
                viol("wrong-mate-in-file", f"read {key}: the first file of {expect} holds {rec[1]!r}, R1 is {b1['seq']!r}" + (f" (R2 is {b2['seq']!r})" if b2 else ""))
            elif b2 is not None and (mate is None or fastx.rid(mate[0]) != key or mate[1] != b2["seq"]):
                viol("wrong-mate-in-file", f"read {key}: the second file of {expect} holds {mate[:2] if mate else None} at the position of the pair, R2 is {b2['seq']!r}")
    # multiset equality with the plain-output run
    if not any(sc.fopts.get(x) for x in ("discard_untrimmed", "untrimmed_output", "discard_trimmed")):
        argv2 = sc.adargs + sc.mods + sc.fargs + ["-o", "plain1.fq"] + (["-p", "plain2.fq"] if sc.paired else []) + sc.inputs
        r2 = climon.run(d, argv2, tag="plain", trace=False)
        if r2.rc == 0:
            for side, fn in ((0, "plain1.fq"), (1, "plain2.fq")):
                if side == 1 and not sc.paired:
                    continue
                fo = r2.records(fn)
                if fo is None or fo[0] == "error":
                    continue
                plain = collections.Counter(fo[1])
                dem = collections.Counter()
                for dest, recs in sc.files.items():
                    if dest.startswith("demux:"):
                        dem.update(recs[side][1])
                if plain != dem:
                    diff = list((plain - dem).items())[:2] + list((dem - plain).items())[:2]
                    viol("multiset-differs", f"records over all demultiplexed files (side {side+1}) differ from the plain -o output: {diff}")
            ctx.count("multiset_comparisons")


def one_case(ctx, k):
    rng = ctx.rng("c15", k)
    d = os.path.join(ctx.scratch, f"c{k}")
    os.makedirs(d, exist_ok=True)
    try:
        demux = rng.choice(["normal", "normal", "combinatorial"])
        sc = F.observe(ctx, rng, d, dict(demux=demux, trace=False, paired_p=0.5, filter_scale=0.45, shared_names_p=0.2, odd_names_p=0.3, unknown_name_p=0.12, revcomp_p=0.1, template_styles_p=0.3, empty_name_p=0.08, kinds=["a", "a", "g", "b", "a$", "g^", "linked"]))
        if sc is None:
            return
        sc.case["k"] = k
        ctx.count("runs")
        ctx.count("mode:" + demux + (":paired" if sc.paired else ""))
        ctx.count("template_style:" + getattr(sc, "template_style", "file"))
        if sc.run.rc != 0 and getattr(sc, "template_style", "file") != "file":
            # where in the path the placeholder sits decides nothing: the same command with the placeholder in the file name
            style = sc.template_style
            sc.template_style = "file"
            d2 = os.path.join(d, "again")
            os.makedirs(d2, exist_ok=True)
            argv2 = F.main_argv(sc, sc.report, sc.cores, extra=sc.side)
            argv2 = [("../" + a) if a in sc.inputs else a for a in argv2]
            again = climon.run(d2, argv2, tag="again", trace=False, timeout=120)
            sc.template_style = style
            if again.rc == 0:
                ctx.case(("template", str(sc.argv)))
                ctx.violation("template-placement", f"exit {sc.run.rc} ({sc.run.err.strip().splitlines()[-1][:160] if sc.run.err.strip() else ''}) with the placeholder "
                              f"in a directory component or at the start of the path; the same command with it inside the file name succeeds; argv={sc.argv}", sc.case)
                return
        ctx.count(f"cores:{sc.cores}")
        evaluate(ctx, sc, d)
        ctx.sample(dict(argv=sc.argv, files=sorted(f for pair in sc.layout.values() for f in pair if f)[:8],
                        fates={f: list(sc.fates.values()).count(f) for f in set(sc.fates.values())}), limit=5)
    finally:
        shutil.rmtree(d, ignore_errors=True)


def action_case(ctx, k):
    """Demultiplexing while the reads are left as they are (--action none/mask/lowercase, as recommended for keeping barcodes),
    several rounds, barcodes in tandem: which adapter matched last does not depend on the action, so the file of each read is
    read off a run of the same adapters with the default action that tags the read with {adapter_name}."""
    from .. import gen_cli as G

    rng = ctx.rng("c15act", k)
    n_ad = rng.randint(2, 4)
    anchored = rng.random() < 0.6
    ads = []
    for i in range(n_ad):
        s_ = G.rnd(rng, rng.randint(5, 8))
        ads.append((f"b{i}", s_))
    times = rng.choice([2, 3, 3])
    action = rng.choice(["none", "none", "mask", "lowercase"])
    adargs = [x for nm, s_ in ads for x in ("-g", f"{nm}={'^' if anchored else ''}{s_}")] + ["-e", "0", "-n", str(times), "-O", "4"]
    recs = []
    for i in range(rng.randint(20, 40)):
        parts = [rng.choice(ads)[1] for _ in range(rng.choice([0, 1, 2, 3, 3, 4]))]
        s_ = "".join(parts) + G.rnd(rng, rng.randint(5, 20))
        recs.append((f"r{i}", s_, "I" * len(s_)))
    d = os.path.join(ctx.scratch, f"act{k}")
    os.makedirs(d, exist_ok=True)
    try:
        inputs = climon.write_inputs(d, recs)
        base = climon.run(d, adargs + ["--rename", "{id} {adapter_name}", "-o", "tag.fq"] + inputs, tag="tag", trace=False)
        cores = rng.choice([1, 1, 2])
        argv = adargs + ["--action", action] + (["-j", "2", "--buffer-size", "1500"] if cores == 2 else []) + ["-o", "act.{name}.fq"] + inputs
        run = climon.run(d, argv, tag="act", trace=False)
        case = climon.case_record(argv, d, inputs)
        case.update(action_k=k)
        ctx.count("action_demultiplexing_runs")
        if base.rc != 0 or run.rc != 0:
            ctx.case(("act-fail", k))
            ctx.violation("run-crashed" if "Traceback" in (run.err + base.err) else "run-failed", f"exit {base.rc}/{run.rc}: {(run.err or base.err).strip().splitlines()[-1][:200]}; argv={argv}", case)
            return
        tag = {fastx.rid(r[0]): r[0].split(" ", 1)[1] for r in base.records("tag.fq")[1]}
        where = {}
        for nm in [a[0] for a in ads] + ["unknown"]:
            fo = run.records(f"act.{nm}.fq")
            if fo is None or fo[0] == "error":
                ctx.violation("file-not-created", f"no parseable file act.{nm}.fq; argv={argv}", case)
                return
            for r in fo[1]:
                where.setdefault(fastx.rid(r[0]), []).append(nm)
        for name, s_, q in recs:
            want = tag[name] if tag[name] != "no_adapter" else "unknown"
            ctx.case(("act", action, times, str(ads), s_) if want != "unknown" else None)
            if where.get(name) != [want]:
                ctx.violation("routed-wrongly", f"read {name} ({s_!r}): last match with the default action is {tag[name]}, with --action={action} -n {times} it is in "
                              f"{where.get(name)}; adapters {ads}; argv={argv}", case, klass="action" + action)
    finally:
        shutil.rmtree(d, ignore_errors=True)


def run_shard(ctx):
    for k in range(ctx.scale(80, 2500)):
        if ctx.out_of_time():
            ctx.count("stopped_on_time_budget")
            break
        one_case(ctx, ctx.shard * 100000 + k)
    for k in range(ctx.scale(8, 150)):
        action_case(ctx, ctx.shard * 100000 + k)


def verdict_hook(merged, tier):
    c = merged["counters"]
    if c.get("runs", 0) and (c.get("runs_failed", 0) + c.get("baseline_failed", 0)) > 0.2 * c["runs"]:
        return [f"{c.get('runs_failed', 0)}+{c.get('baseline_failed', 0)} of {c['runs']} runs exited non-zero: {merged['extra'].get('failed_example', [''])[0]}"]
    return []


def replay(ctx, case):
    if "action_k" in case:
        ctx.shard = case["action_k"] // 100000
        action_case(ctx, case["action_k"])
        return
    ctx.shard = case["k"] // 100000
    one_case(ctx, case["k"])
