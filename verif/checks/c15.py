"""C15 - demultiplexing puts every read into the file of its adapter."""
import collections
import os
import shutil

from .. import climon, fastx, filtermon as F

ID = "C15"
LEVEL = "exploration"
ENGINES = ["climon"]
TECHNIQUE = "offline checker over the set of created files and their records vs. last-match names from a tagged baseline run + differential run of the same command with a plain -o (multiset equality)"
LEVEL_TEXT = ("Real runs with {name} (single and paired) and {name1}/{name2} in the output path, with and without --discard-untrimmed / "
              "--untrimmed-output and filters, 1-3 cores. A file must exist for every adapter name (every name combination, plus the "
              "'unknown' ones unless --discard-untrimmed) even if it stays empty; every read that passes the filters must be in the file named "
              "after its last match on R1 (pair of last matches), as read off a baseline run that tags each read with {adapter_name}; the "
              "multiset of records over all demultiplexed files must equal the main output of the same command with a plain -o.")
LEVEL_TEXT += " Each file's records are compared with the right mate's record of the baseline (not only the read id), adapter names contain punctuation, collide after punctuation is mapped to '_', or are literally 'unknown'; a run that is refused only with several cores is a violation."
LEVEL_NOTE = ("Trusted base: independent parser, unique ids, the baseline's {adapter_name} tag (last match), file names derived from the "
              "template by plain string replacement.")
VARIANTS = {"quick": ["plain"], "thorough": ["plain"]}
BUDGET_S = {"quick": 150, "thorough": 3000}
FLOORS = {"quick": 2000, "thorough": 60000}
RULE = ("Seeded random demultiplexing scenarios with 1-3 named adapters on R1 (and R2), --times 1-2. Non-trivial = the read passed the "
        "filters and was routed by the demultiplexer (to a named file, unknown, the untrimmed file, or discarded as untrimmed); distinct by "
        "(template kind, adapter names of both mates, processed records).")
ASSUMPTIONS = ["two adapters may share a name (variants of one barcode): their reads belong in the same file", "the differential plain-output run is made only when no trimmed/untrimmed option is used"]


def evaluate(ctx, sc, d):
    run, case, argv = sc.run, sc.case, sc.argv
    viol = lambda kind, text, **facts: ctx.violation(kind, f"{text}; argv={argv}", case, facts=dict(facts, demux=sc.demux), klass=kind)
    if run.rc != 0:
        if "Traceback" in run.err:
            viol("run-crashed", run.err.strip().splitlines()[-1][:200])
        else:
            ctx.count("runs_failed")
            ctx.extra.setdefault("failed_example", (argv, run.err[-300:]))
            if sc.cores > 1:
                # "one core and several": a command that one core carries out must not be refused with several
                r1 = climon.run(d, F.main_argv(sc, sc.report, 1, extra=sc.side), tag="again1", trace=False, timeout=120)
                ctx.count("refused_multicore_runs_repeated_with_one_core")
                if r1.rc == 0:
                    viol("refused-only-with-several-cores", f"exit {run.rc} with {sc.cores} cores ({run.err.strip().splitlines()[-1][:160] if run.err.strip() else ''}) "
                         "but the same command succeeds with one core")
        return
    # every expected file exists, no unexpected demultiplexed file
    for dest, (f1, f2) in sc.layout.items():
        for f in (f1, f2):
            if f and not os.path.exists(os.path.join(d, f)):
                viol("file-not-created", f"no file {f} for destination {dest} (files are created even if they stay empty)")
    expected_files = {f for pair in sc.layout.values() for f in pair if f}
    for f in os.listdir(d):
        if (f.startswith("dm.") or f.startswith("cb.")) and f not in expected_files:
            viol("unexpected-file", f"file {f} was created but no adapter name (combination) maps to it")
    for dest, (r1, r2) in sc.files.items():
        if r1 is None or r1[0] == "error" or (r2 is not None and r2[0] == "error"):
            viol("output-file", f"output for {dest} missing or unparseable")
            return
    # what each file holds for a read: the record of the right mate, as the baseline run produced it
    content = {}
    for dest, (r1, r2) in sc.files.items():
        for i, rec in enumerate(r1[1]):
            mate = r2[1][i] if (r2 is not None and i < len(r2[1])) else None
            content[(dest, fastx.rid(rec[0]))] = (rec, mate)
        if r2 is not None and len(r2[1]) != len(r1[1]):
            viol("output-file", f"the two files of destination {dest} hold {len(r1[1])} and {len(r2[1])} records")
    for idx, key in enumerate(sc.order):
        fate = sc.fates[key]
        b1 = sc.base[1][idx]
        b2 = sc.base[2][idx] if sc.paired else None
        dests = sc.membership.get(key, [])
        if fate == "skip":
            ctx.case(None)
            continue
        routed = fate.startswith("demux:") or fate in ("untrimmed_file", "discard_untrimmed")
        ctx.case((sc.demux, b1["adapter"], b2["adapter"] if b2 else None, b1["seq"], b2["seq"] if b2 else None, fate) if routed else None)
        if routed:
            ctx.count("routed:" + ("named" if fate.startswith("demux:") and "unknown" not in fate else fate if not fate.startswith("demux:") else "unknown"))
        expect = fate if fate in sc.layout else None
        if expect is None and dests:
            viol("routed-wrongly", f"read {key}: reference fate {fate} (not written) but found in {dests}; last match R1={b1['adapter']}" + (f" R2={b2['adapter']}" if b2 else ""))
        elif expect is not None and dests != [expect]:
            viol("routed-wrongly", f"read {key}: last match R1={b1['adapter']}" + (f" R2={b2['adapter']}" if b2 else "") + f" -> {expect}, found in {dests or 'no file'}")
        elif expect is not None:
            rec, mate = content[(expect, key)]
            if rec[1] != b1["seq"]:
                viol("wrong-mate-in-file", f"read {key}: the first file of {expect} holds {rec[1]!r}, R1 is {b1['seq']!r}" + (f" (R2 is {b2['seq']!r})" if b2 else ""))
            elif b2 is not None and (mate is None or fastx.rid(mate[0]) != key or mate[1] != b2["seq"]):
                viol("wrong-mate-in-file", f"read {key}: the second file of {expect} holds {mate[:2] if mate else None} at the position of the pair, R2 is {b2['seq']!r}")
    # multiset equality with the plain-output run
    if not any(sc.fopts.get(x) for x in ("discard_untrimmed", "untrimmed_output", "discard_trimmed")):
        argv2 = sc.adargs + sc.mods + sc.fargs + ["-o", "plain1.fq"] + (["-p", "plain2.fq"] if sc.paired else []) + sc.inputs
        r2 = climon.run(d, argv2, tag="plain", trace=False)
        if r2.rc == 0:
            for side, fn in ((0, "plain1.fq"), (1, "plain2.fq")):
                if side == 1 and not sc.paired:
                    continue
                fo = r2.records(fn)
                if fo is None or fo[0] == "error":
                    continue
                plain = collections.Counter(fo[1])
                dem = collections.Counter()
                for dest, recs in sc.files.items():
                    if dest.startswith("demux:"):
                        dem.update(recs[side][1])
                if plain != dem:
                    diff = list((plain - dem).items())[:2] + list((dem - plain).items())[:2]
                    viol("multiset-differs", f"records over all demultiplexed files (side {side+1}) differ from the plain -o output: {diff}")
            ctx.count("multiset_comparisons")


def one_case(ctx, k):
    rng = ctx.rng("c15", k)
    d = os.path.join(ctx.scratch, f"c{k}")
    os.makedirs(d, exist_ok=True)
    try:
        demux = rng.choice(["normal", "normal", "combinatorial"])
        sc = F.observe(ctx, rng, d, dict(demux=demux, trace=False, paired_p=0.5, filter_scale=0.45, shared_names_p=0.2, odd_names_p=0.3, unknown_name_p=0.12, kinds=["a", "a", "g", "b", "a$", "g^", "linked"]))
        if sc is None:
            return
        sc.case["k"] = k
        ctx.count("runs")
        ctx.count("mode:" + demux + (":paired" if sc.paired else ""))
        ctx.count(f"cores:{sc.cores}")
        evaluate(ctx, sc, d)
        ctx.sample(dict(argv=sc.argv, files=sorted(f for pair in sc.layout.values() for f in pair if f)[:8],
                        fates={f: list(sc.fates.values()).count(f) for f in set(sc.fates.values())}), limit=5)
    finally:
        shutil.rmtree(d, ignore_errors=True)


def run_shard(ctx):
    for k in range(ctx.scale(80, 2500)):
        if ctx.out_of_time():
            ctx.count("stopped_on_time_budget")
            break
        one_case(ctx, ctx.shard * 100000 + k)


def verdict_hook(merged, tier):
    c = merged["counters"]
    if c.get("runs", 0) and (c.get("runs_failed", 0) + c.get("baseline_failed", 0)) > 0.2 * c["runs"]:
        return [f"{c.get('runs_failed', 0)}+{c.get('baseline_failed', 0)} of {c['runs']} runs exited non-zero: {merged['extra'].get('failed_example', [''])[0]}"]
    return []


def replay(ctx, case):
    ctx.shard = case["k"] // 100000
    one_case(ctx, case["k"])
