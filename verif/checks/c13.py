"""C13 - quality trimming removes exactly the BWA-defined low-quality ends."""
import itertools
import json

from .. import refmodel as R
from .. import clirun, fastx

ID = "C13"
LEVEL = "exploration"
ENGINES = ['alnmon', 'climon', 'sanrun']
TECHNIQUE = 'definition-based reference monitor on quality_trim_index/nextseq_trim_index (direct, via modifiers, via CLI) + ASan/UBSan'
LEVEL_TEXT = "Every result of the real trimming functions on ~3x10^5 (quick) generated quality strings is compared with a reference that transcribes the BWA definition, including ties, characters below the base, both bases, the modifier's removed-bases accounting and the CLI's output records and JSON count; metamorphic clauses (all high, all low, base shift) are asserted on the same calls."
LEVEL_TEXT += ' One trimmer object of each kind also processes streams of reads whose quality strings repeat (state must not leak from read to read), command-line cases use binned qualities, cutoffs 0 and 1 and values up to 2^31-1 are included.'
LEVEL_TEXT += ' Command-line cases include characters below the quality base (with and without --zero-cap) and cut-offs at and beyond the highest quality on reads of such qualities.'
LEVEL_TEXT += ' -Q without -q, and the per-read lines of the full text report.'
LEVEL_NOTE = 'Trusted base: refmodel.qtrim3 (definition), independent FASTQ parser. Thorough adds an exhaustive scope over 3 quality levels up to length 8.'
VARIANTS = {"quick": ["plain", "asan"], "thorough": ["plain", "asan"]}
BUDGET_S = {"quick": 120, "thorough": 2400}
FLOORS = {"quick": 20000, "thorough": 500000}
EXHAUSTIVE = {"thorough": "all quality strings over 3 quality levels {cutoff-1, cutoff, cutoff+1} of length <= 8 x "
                          "cutoff pairs from {0, c} x both bases, and for NextSeq all base strings over {A,G} of the same length"}
RULE = ("Seeded random quality strings (all printable characters including those below the quality base, lengths 0-60, "
        "plateaus and values equal to the cutoff so that ties occur), cutoff pairs incl. 0, bases 33/64, base strings "
        "rich in G for NextSeq mode. quality_trim_index / nextseq_trim_index are called directly, through "
        "QualityTrimmer / NextseqQualityTrimmer (removed-bases accounting) and through -q/--nextseq-trim at the command "
        "line (output record and JSON quality_trimmed); each result is compared with the definition-based reference "
        "(minimal suffix sum, shortest on ties, stop once the running sum is positive; 5' mirrored; intervals combined). "
        "Metamorphic: all>=cutoff unchanged, all<cutoff empty, base 33 vs 64 shift invariance. "
        "Non-trivial = at least one base is removed by the reference; distinct by (qualities, cutoffs, base, bases).")
ASSUMPTIONS = [
    "refmodel.qtrim3/qtrim/nextseq_trim transcribe the documented BWA procedure (doc/algorithms.rst)",
    "a clean ASan/UBSan run means no report on the calls made, not memory safety",
]


def gen_q(rng, n, cutoffs):
    mode = rng.random()
    if mode < 0.25:
        return [rng.randint(0, 41) for _ in range(n)]
    if mode < 0.5:
        return [rng.choice([2, 10, 11, 20, 30]) for _ in range(n)]
    if mode < 0.7:
        c = rng.choice(cutoffs) if cutoffs else 10
        return [c + rng.choice([-1, 0, 0, 1]) for _ in range(n)]
    if mode < 0.85:
        # decaying tail / plateau patterns
        k = rng.randint(0, n)
        hi, lo = rng.randint(20, 40), rng.randint(0, 15)
        return [hi] * (n - k) + [lo] * k if rng.random() < 0.5 else [lo] * k + [hi] * (n - k)
    return [rng.randint(-3, 93) for _ in range(n)]


def check_direct(ctx, q, cf, cb, base, seq, nc):
    from cutadapt.qualtrim import quality_trim_index, nextseq_trim_index
    from cutadapt.modifiers import QualityTrimmer, NextseqQualityTrimmer, ModificationInfo
    from dnaio import SequenceRecord

    quals = "".join(chr(x + base) for x in q)
    n = len(q)
    case = dict(q=q, cf=cf, cb=cb, base=base, seq=seq, nc=nc)
    exp = R.qtrim(q, cf, cb)
    removed = n - (exp[1] - exp[0])
    exp_ns = R.nextseq_trim(seq, q, nc)
    nontrivial = removed > 0 or exp_ns < n
    ctx.case((quals, cf, cb, base, seq, nc) if nontrivial else None)
    got = quality_trim_index(quals, cf, cb, base)
    if tuple(got) != tuple(exp):
        ctx.violation("qtrim-index", f"quality_trim_index({q}, {cf}, {cb}, base={base}) = {got}, reference {exp}", case)
    if removed:
        ctx.count("bases_removed_cases")
    if exp == (0, 0) and n:
        ctx.count("emptied")
    # metamorphic clauses
    if n and all(x >= max(cf, cb) for x in q) and tuple(got) != (0, n):
        ctx.violation("all-high-changed", f"all qualities >= cutoff but result {got} for {q}", case)
    if n and cb > 0 and all(x < cb for x in q) and got[1] - got[0] != 0:
        ctx.violation("all-low-not-empty", f"all qualities < 3' cutoff but result {got} for {q}", case)
    other = 64 if base == 33 else 33
    if all(0 <= x + other <= 126 for x in q):
        got2 = quality_trim_index("".join(chr(x + other) for x in q), cf, cb, other)
        if tuple(got2) != tuple(got):
            ctx.violation("base-shift", f"base {base}: {got}, base {other}: {got2} for the same phred values {q}", case)
    # through the modifier: accounting of removed bases
    rec = SequenceRecord("r", seq, quals)
    qt = QualityTrimmer(cf, cb, base)
    out = qt(rec, ModificationInfo(rec))
    if (out.sequence, out.qualities) != (seq[exp[0]:exp[1]], quals[exp[0]:exp[1]]):
        ctx.violation("qtrim-record", f"QualityTrimmer gave {out.sequence!r}/{out.qualities!r}, expected slice {exp}", case)
    if qt.trimmed_bases != removed:
        ctx.violation("qtrim-accounting", f"QualityTrimmer.trimmed_bases={qt.trimmed_bases}, removed {removed}", case)
    # NextSeq
    got_ns = nextseq_trim_index(rec, nc, base)
    if got_ns != exp_ns:
        ctx.violation("nextseq-index", f"nextseq_trim_index(seq={seq!r}, q={q}, cutoff={nc}) = {got_ns}, reference {exp_ns}", case)
    if exp_ns < n:
        ctx.count("nextseq_removed_cases")
    nt = NextseqQualityTrimmer(nc, base)
    out = nt(rec, ModificationInfo(rec))
    if (out.sequence, out.qualities) != (seq[:exp_ns], quals[:exp_ns]) or nt.trimmed_bases != n - exp_ns:
        ctx.violation("nextseq-record", f"NextseqQualityTrimmer gave {out.sequence!r}, trimmed_bases={nt.trimmed_bases}; expected stop {exp_ns}", case)
    if nontrivial:
        ctx.sample(dict(q=q, cutoffs=(cf, cb), base=base, expected=exp, seq=seq, nextseq_cutoff=nc, nextseq_stop=exp_ns))


def check_stream(ctx, rng):
    """One trimmer object of each kind over a stream of reads (as in a real run): every read must be trimmed by its own
    qualities and bases, whatever the object saw before; the removed-bases counters must add up. Quality strings repeat."""
    from cutadapt.modifiers import QualityTrimmer, NextseqQualityTrimmer, ModificationInfo
    from dnaio import SequenceRecord

    base = rng.choice([33, 64])
    cf, cb, nc = rng.choice([0, 5, 10]), rng.choice([5, 10, 20]), rng.choice([0, 5, 10, 20])
    L = rng.randint(1, 14)
    pool = [[rng.choice([2, 12, 30, 40]) for _ in range(L)] for _ in range(rng.randint(1, 3))]
    qt, nt = QualityTrimmer(cf, cb, base), NextseqQualityTrimmer(nc, base)
    tot_q = tot_n = 0
    reads = []
    for i in range(rng.randint(4, 14)):
        q = rng.choice(pool)
        seq = "".join(rng.choice("ACGTGGG") for _ in range(L))
        reads.append((seq, q))
        quals = "".join(chr(x + base) for x in q)
        rec = SequenceRecord(f"r{i}", seq, quals)
        a, b = R.qtrim(q, cf, cb)
        stop = R.nextseq_trim(seq, q, nc)
        tot_q += L - (b - a)
        tot_n += L - stop
        o1 = qt(rec, ModificationInfo(rec))
        o2 = nt(rec, ModificationInfo(rec))
        case = dict(stream=True, reads=reads[:], cf=cf, cb=cb, nc=nc, base=base)
        if (o1.sequence, o1.qualities) != (seq[a:b], quals[a:b]):
            ctx.violation("qtrim-stream", f"read {i} of a stream ({seq!r}, q={q}): QualityTrimmer({cf},{cb}) gave {o1.sequence!r}, expected {seq[a:b]!r}; earlier reads {reads[:-1][-2:]}", case)
        if (o2.sequence, o2.qualities) != (seq[:stop], quals[:stop]):
            ctx.violation("nextseq-stream", f"read {i} of a stream ({seq!r}, q={q}): NextseqQualityTrimmer({nc}) gave {o2.sequence!r}, expected {seq[:stop]!r}; earlier reads {reads[:-1][-2:]}", case)
    if qt.trimmed_bases != tot_q or nt.trimmed_bases != tot_n:
        ctx.violation("stream-accounting", f"trimmed_bases {qt.trimmed_bases}/{nt.trimmed_bases} after the stream, removed {tot_q}/{tot_n}", case)
    ctx.case(("stream", str(reads), cf, cb, nc, base) if (tot_q or tot_n) else None)
    ctx.count("stream_reads", len(reads))


def cli_case(ctx, rng, k):
    """-q / --nextseq-trim at the command line: records and JSON quality_trimmed."""
    base = rng.choice([33, 64])
    recs = []
    binned = rng.random() < 0.3
    below_base = base == 64 and rng.random() < 0.4
    zero_cap = rng.random() < (0.6 if below_base else 0.15)
    # cut-offs at and beyond the highest quality that can be written, on reads of such qualities
    top_range = (not below_base) and rng.random() < 0.12
    pool = {}
    for i in range(rng.randint(1, 30)):
        n = rng.randint(0, 40) if not binned else rng.choice([8, 12, 12, 20])
        q = [max(0, min(x, 126 - base)) for x in gen_q(rng, n, [10, 20])]
        if top_range:
            q = [126 - base - rng.choice([0, 0, 0, 1, 2, 5]) for _ in range(n)]
        if below_base and n:
            # characters below the quality base: negative qualities, which the trimming sees as they are and only
            # --zero-cap (the last modification) turns into zeros
            for j in rng.sample(range(n), rng.randint(1, max(1, n // 3))):
                q[j] = -rng.randint(1, 31)
        if binned:
            # instruments with binned qualities: many reads carry the very same quality string
            q = pool.setdefault((n, rng.randint(0, 1)), q)
        s = "".join(rng.choice("ACGTGGN") for _ in range(n))
        recs.append((f"r{i}", s, "".join(chr(x + base) for x in q)))
    mode = rng.choice(["q1", "q2", "nextseq", "paired", "paired", "both", "both", "r2only"])
    d = f"{ctx.scratch}/cli{k}"
    import os
    os.makedirs(d, exist_ok=True)
    with open(f"{d}/in.fq", "w") as f:
        f.write(fastx.format_fastq(recs))
    argv = ["--json", "rep.json", "--quality-base", str(base)] + (["-z"] if zero_cap else [])
    if below_base:
        ctx.count("cli_runs_with_characters_below_the_quality_base")
    if zero_cap:
        ctx.count("cli_runs_with_zero_cap")
    minimal = rng.random() < 0.35
    if minimal:
        argv += ["--report", "minimal"]
    cf, cb, nc = 0, 0, None
    top = 126 - base
    hi = lambda lst: rng.choice([top - 1, top, top + 1, top + 2, 120, 1000]) if top_range else rng.choice(lst)
    if top_range:
        ctx.count("cli_runs_with_cutoffs_around_the_highest_quality")
    if mode == "r2only":
        pass        # only -Q below: nothing trims R1
    elif mode == "q1":
        cb = hi([5, 10, 20, 30]); argv += ["-q", str(cb)]
    elif mode in ("q2", "paired"):
        cf, cb = hi([0, 5, 10, 20]), hi([0, 5, 10, 20]); argv += ["-q", f"{cf},{cb}"]
    elif mode == "both":
        # NextSeq trimming runs first, ordinary quality trimming then sees its result; the report must add both up
        nc = hi([0, 1, 5, 10, 20]); argv += ["--nextseq-trim", str(nc)]
        cf, cb = rng.choice([0, 10, 20]), rng.choice([5, 10, 20]); argv += ["-q", f"{cf},{cb}"]
    else:
        nc = hi([0, 1, 5, 10, 20]); argv += ["--nextseq-trim", str(nc)]
    cf2, cb2 = cf, cb
    if mode in ("paired", "r2only"):
        if rng.random() < 0.7 or mode == "r2only":
            cf2, cb2 = rng.choice([0, 5, 15]), rng.choice([8, 15, 25])
            argv += ["-Q", f"{cf2},{cb2}"]
        argv += ["-o", "out.fq", "-p", "out2.fq", "in.fq", "in.fq"]
    else:
        argv += ["-o", "out.fq", "in.fq"]
    res = clirun.run(argv, d, timeout=60)
    case = dict(cli=True, argv=argv, input=fastx.format_fastq(recs))
    ctx.count("cli_runs")
    if res.rc != 0:
        ctx.case(("cli-fail", str(argv)))
        ctx.violation("cli-failed", f"exit {res.rc}: {res.err[-300:]}", case)
        return
    total = [0, 0]
    outs = [fastx.read_records(f"{d}/out.fq")[1]]
    cuts = [(cf, cb) if mode != "r2only" else None]
    if mode in ("paired", "r2only"):
        outs.append(fastx.read_records(f"{d}/out2.fq")[1]); cuts.append((cf2, cb2))
    nontrivial = False
    for side, (out, cut) in enumerate(zip(outs, cuts)):
        a, b = cut if cut is not None else (None, None)
        if len(out) != len(recs):
            ctx.violation("cli-count", f"{len(out)} records written for {len(recs)} input", case)
            continue
        for (name, s, qs), (on, os_, oq) in zip(recs, out):
            q = [ord(c) - base for c in qs]
            if cut is None:
                start, stop = 0, len(s)
            elif nc is not None and mode == "both":
                ns = R.nextseq_trim(s, q, nc)
                start, stop = R.qtrim(q[:ns], a, b)
            elif nc is not None:
                stop = R.nextseq_trim(s, q, nc); start = 0
            else:
                start, stop = R.qtrim(q, a, b)
            total[side] += len(s) - (stop - start)
            want_q = qs[start:stop]
            if zero_cap:
                want_q = "".join(c if ord(c) >= base else chr(base) for c in want_q)
            if (os_, oq) != (s[start:stop], want_q):
                ctx.violation("cli-record", f"read {name}: got {os_!r}/{oq!r}, reference slice [{start}:{stop}] of {s!r}/{qs!r} argv={argv}", case)
            if stop - start != len(s):
                nontrivial = True
    rep = json.load(open(f"{d}/rep.json"))["basepair_counts"]
    got = [rep["quality_trimmed_read1"], rep["quality_trimmed_read2"]]
    for side in range(len(outs)):
        if got[side] is None:
            # '-q 0' alone installs no trimmer for that side: nothing to report
            if total[side] != 0:
                ctx.violation("cli-accounting", f"quality_trimmed_read{side+1} is null but {total[side]} bases were removed", case)
        elif got[side] != total[side]:
            ctx.violation("cli-accounting", f"quality_trimmed_read{side+1}={got[side]} but {total[side]} bases were removed; argv={argv}", case)
    if not minimal and len(outs) > 1:
        # the full text report names the read each per-read line belongs to
        from ..filtermon import parse_text_report
        tr = parse_text_report(res.out)
        want_lines = {i + 1: total[i] for i in range(2) if got[i] is not None}
        if "quality_trimmed" in tr and tr.get("_per_read:quality_trimmed") != want_lines:
            ctx.violation("cli-accounting", f"text report lines below 'Quality-trimmed': {tr.get('_per_read:quality_trimmed')}, removed from R1/R2: {want_lines}; argv={argv}", case, klass="text")
        ctx.count("text_reports_checked")
    if minimal:
        # the one-line report: qualtrim_bp is what was removed from R1, qualtrim2_bp what was removed from R2
        from ..filtermon import parse_minimal_report
        mr = parse_minimal_report(res.out)
        ctx.count("minimal_reports_checked")
        if mr is None:
            ctx.violation("cli-accounting", f"no minimal report on standard output; argv={argv}", case)
        else:
            want = [total[0]] + ([total[1]] if len(outs) > 1 else [])      # the R2 column exists for paired data only
            have = [int(mr.get("qualtrim_bp", -1))] + ([int(mr.get("qualtrim2_bp", -1))] if len(outs) > 1 else [])
            if have != want:
                ctx.violation("cli-accounting", f"minimal report qualtrim_bp/qualtrim2_bp = {have}, removed from R1/R2: {want}; argv={argv}", case, klass="minimal")
    ctx.case(("cli", str(argv), case["input"]) if nontrivial else None)
    import shutil
    shutil.rmtree(d, ignore_errors=True)


def run_shard(ctx):
    asan = ctx.variant == "asan"
    rng = ctx.rng("c13")
    n = ctx.scale(15000, 600000) if not asan else ctx.scale(4000, 60000)
    cut_choices = [0, 0, 5, 10, 11, 20, 30]
    for i in range(n):
        if ctx.out_of_time():
            ctx.count("stopped_on_time_budget"); break
        L = rng.choice([0, 1, 2, 3, 4, 5, 7, 8, 9, rng.randint(0, 60)])
        base = rng.choice([33, 64])
        cf, cb = rng.choice(cut_choices), rng.choice(cut_choices[1:])
        if rng.random() < 0.03:
            # "all cutoff pairs": also values far outside the quality range (still C ints)
            cf, cb = rng.choice([0, cf, 10 ** 9, 2147483647]), rng.choice([cb, 1100000000, 2147483000])
            ctx.count("huge_cutoff_cases")
        q = gen_q(rng, L, [cf, cb])
        q = [max(-base + 1, min(x, 126 - base)) for x in q]
        if rng.random() < 0.93:
            q = [max(0, x) for x in q]   # mostly non-negative; 7% keep characters below the base
        seq = "".join(rng.choice("ACGTGGGNg" if rng.random() < 0.7 else "ACGT") for _ in range(L))
        nc = rng.choice([0, 1, 5, 10, 20]) if rng.random() < 0.98 else rng.choice([10 ** 9, 2147483647])
        check_direct(ctx, q, cf, cb, base, seq, nc)
        if i % 10 == 0:
            check_stream(ctx, rng)
        if asan and i % 50 == 0:
            ctx.san_check(lambda: dict(q=q, cf=cf, cb=cb, base=base, seq=seq, nc=nc))
    if asan:
        ctx.san_check(lambda: dict(note="end of shard"))
    if not asan:
        for k in range(ctx.scale(40, 400)):
            cli_case(ctx, ctx.rng("c13cli", k), k)
    if ctx.tier == "thorough" and not asan:
        idx = 0
        for L in range(0, 9):
            for c in (5, 20):
                for tup in itertools.product((c - 1, c, c + 1), repeat=L):
                    idx += 1
                    if idx % ctx.nshards != ctx.shard:
                        continue
                    q = list(tup)
                    seq = "".join("G" if (idx >> b) & 1 else "A" for b in range(L))
                    for cf, cb in ((0, c), (c, c), (c, 0)):
                        check_direct(ctx, q, cf, cb, 33 if idx % 2 else 64, seq, c)
                    ctx.count("exhaustive_strings")


def replay(ctx, case):
    if case.get("cli"):
        ctx.mark_inconclusive("CLI cases are replayed by re-running the check with the same seed")
        return
    if case.get("stream"):
        from cutadapt.modifiers import QualityTrimmer, NextseqQualityTrimmer, ModificationInfo
        from dnaio import SequenceRecord

        base = case["base"]
        qt, nt = QualityTrimmer(case["cf"], case["cb"], base), NextseqQualityTrimmer(case["nc"], base)
        ctx.case(("stream-replay", str(case["reads"])))
        for i, (seq, q) in enumerate(case["reads"]):
            quals = "".join(chr(x + base) for x in q)
            rec = SequenceRecord(f"r{i}", seq, quals)
            a, b = R.qtrim(q, case["cf"], case["cb"])
            stop = R.nextseq_trim(seq, q, case["nc"])
            o1, o2 = qt(rec, ModificationInfo(rec)), nt(rec, ModificationInfo(rec))
            if o1.sequence != seq[a:b]:
                ctx.violation("qtrim-stream", f"read {i}: {o1.sequence!r} != {seq[a:b]!r}", case)
            if o2.sequence != seq[:stop]:
                ctx.violation("nextseq-stream", f"read {i}: {o2.sequence!r} != {seq[:stop]!r}", case)
        return
    check_direct(ctx, case["q"], case["cf"], case["cb"], case["base"], case["seq"], case["nc"])
    ctx.san_check(case)
