"""C06 - multi-core runs give the single-core result under every schedule."""
import json
import os
import shutil

from .. import climon, fastx, gen_cli as G

ID = "C06"
LEVEL = "exploration"
ENGINES = ["mpmon", "climon"]
TECHNIQUE = "schedule perturbation (seeded delays at the reader/worker/main hand-off points, shuffled ready list, chunk sizes from 1 to hundreds of chunks) + differential observation of every output file and the JSON report against the -j 1 run; interleavings actually seen are recorded from hooked chunk events"
LEVEL_TEXT = ("The same command runs with one core and with 2-4 (thorough: up to 8) worker processes under several seeded schedule "
              "perturbations: delays in {0, 2, 10, 40} ms in the reader before it hands out a chunk, in each worker before it sends its result, "
              "in the main process before it serves ready connections, and a seeded shuffle of the ready list - all at the existing hand-off "
              "points between processes. --buffer-size splits the input into one to hundreds of chunks. Every output file (main, paired, "
              "redirect, demultiplexed, info, rest, wildcard; compressed ones after decompression) must be byte-identical to the one-core "
              "file and the JSON report identical apart from 'cores' and 'command_line_arguments'. The run's evidence lists how many distinct "
              "(chunk-to-worker assignment, arrival order) signatures were observed and how many chunks were held back out of order; without "
              "any out-of-order arrival the verdict is inconclusive.")
LEVEL_TEXT += " Inputs include FASTA (two files and interleaved, header comments containing '>', '@', '+'), multi-MB block-structured files whose chunks contribute between nothing and several hundred KB to each output, and demultiplexing with an adapter named 'unknown'."
LEVEL_TEXT += ' Inputs without reads and with fewer reads than workers, non-ASCII adapter names, and runs whose processes are confined to one CPU.'
LEVEL_TEXT += " Every shard runs one interleaved FASTA input with '>' in header comments; output extensions also in upper and mixed case."
LEVEL_NOTE = ("Trusted base: byte comparison, Python's decompressors; the hooks only delay and record, they do not change what is sent. "
              "A finite set of schedules is observed, not every schedule.")
VARIANTS = {"quick": ["plain"], "thorough": ["plain"]}
BUDGET_S = {"quick": 240, "thorough": 3600}
FLOORS = {"quick": 150, "thorough": 4000}
RULE = ("Seeded random feature-heavy commands x (cores, buffer size, perturbation seed). Non-trivial = a multi-core run that split "
        "the input into at least two chunks; distinct by (command, cores, buffer size, perturbation seed).")
ASSUMPTIONS = ["delays are injected only between processes (there are no shared-memory critical sections)",
               "a watchdog expiry without a confirmed deadlock is inconclusive, not a violation"]


def gen_barcode_case(rng):
    """Indexed anchored adapters and reads whose anchored end carries N in varying patterns (per-process lookup state
    must not make the result depend on which reads a worker saw before)."""
    prefix = rng.random() < 0.6
    L = rng.randint(10, 14)
    ads = []
    for i in range(rng.randint(3, 6)):
        s = "".join(rng.choice("AAACGT") for _ in range(L))
        ads.append(s)
    opts = []
    for i, s in enumerate(ads):
        opts += (["-g", f"bc{i}=^{s}"] if prefix else ["-a", f"bc{i}={s}$"])
    opts += ["-e", rng.choice(["0.2", "0.25", "0.3"]), "-O", "3"] + (["--no-indels"] if rng.random() < 0.5 else [])
    if rng.random() < 0.5:
        opts += ["--info-file", "info.tsv"]
    if rng.random() < 0.3:
        opts += ["--discard-untrimmed"]
    recs = []
    for i in range(rng.randint(200, 500)):
        a = list(rng.choice(ads))
        apos = [j for j, c in enumerate(a) if c == "A"] or list(range(len(a)))
        for j in rng.sample(apos, min(len(apos), rng.choice([0, 1, 1, 2, 3, 3]))):
            a[j] = "N"
        if rng.random() < 0.15:
            j = rng.randrange(len(a)); a[j] = rng.choice("ACGTN")
        ins = G.rnd(rng, rng.randint(15, 30))
        s = "".join(a) + ins if prefix else ins + "".join(a)
        recs.append((f"r{i}", s, "I" * len(s)))
    io = ["-o", "out1.fastq"]
    return dict(paired=False, opts=opts, io=io, recs1=recs, recs2=None, fasta_out=False, interleaved_in=False)


def gen_large_case(rng, huge=None):
    """A few MB of input in blocks of long and of very short reads, so that the amount a chunk contributes to each
    output file varies between nothing and several hundred KB (buffers of the workers are reused across chunks)."""
    ad = G.rnd(rng, 20)
    paired = rng.random() < 0.3
    recs1, recs2 = [], []
    i = 0
    huge = (rng.random() < 0.3) if huge is None else huge      # several MB: single chunks then contribute more than a MiB to an output file
    for b in range(rng.randint(5, 8) if not huge else rng.randint(9, 12)):
        long_block = b % 2 == 0
        for _ in range((rng.randint(900, 1600) if long_block else rng.randint(1500, 3000)) * (2 if huge else 1)):
            def one():
                if long_block:
                    s = G.rnd(rng, rng.randint(60, 100))
                    if rng.random() < 0.5:
                        s = s[:rng.randint(20, len(s))] + ad[:rng.randint(8, 20)] + G.rnd(rng, rng.randint(0, 15))
                else:
                    s = G.rnd(rng, rng.randint(5, 12))
                return s
            s1 = one()
            recs1.append((f"r{i} c", s1, "I" * len(s1)))
            if paired:
                s2 = one()
                recs2.append((f"r{i} d", s2, "H" * len(s2)))
            i += 1
    opts = ["-a", f"ad={ad}", "-O", "5", "-m", "20"]
    if paired:
        opts += ["-A", f"bd={ad}", "--too-short-output", "ts1.fastq", "--too-short-paired-output", "ts2.fastq"]
        io = ["-o", "out1.fastq", "-p", "out2.fastq"]
    else:
        opts += ["--too-short-output", "ts1.fastq", "--info-file", "info.tsv", "--rest-file", "rest.txt"]
        io = ["-o", "out1.fastq"]
    return dict(paired=paired, opts=opts, io=io, recs1=recs1, recs2=recs2 if paired else None, fasta_out=False, interleaved_in=False, large=True)


def gen_case(rng, large=False, fasta_pairs=False):
    """fasta_pairs: one interleaved FASTA input whose header comments contain '>', '@' and '+' (the reader re-cuts such
    chunks at record starts; every shard runs one of these)."""
    if large:
        return gen_large_case(rng)
    if rng.random() < 0.2 and not fasta_pairs:
        return gen_barcode_case(rng)
    paired = rng.random() < 0.5 or fasta_pairs
    kinds = ["a", "a", "g", "b", "a$", "g^", "linked", "aX"]
    ads1 = [G.gen_adapter(rng, i, kinds=kinds) for i in range(rng.randint(1, 3))]
    ads2 = [G.gen_adapter(rng, i, upper=True, prefix="bd", kinds=kinds) for i in range(rng.randint(1, 2))] if paired and rng.random() < 0.6 else []
    if rng.random() < 0.3:
        # N wildcards for the wildcard file
        a = ads1[0]
        if a["kind"] in ("a", "g", "b"):
            s = list(a["parts"][0]); s[len(s) // 2] = "N"
            a["spec"] = "".join(s); a["argv"] = [a["flag"], f"{a['name']}={a['spec']}"]
    pair_adapters = False
    if paired and ads2 and rng.random() < 0.2:
        simple = ["a", "g", "a$", "g^"]
        ads1 = [G.gen_adapter(rng, i, kinds=simple) for i in range(len(ads1))]
        ads2 = [G.gen_adapter(rng, i, upper=True, prefix="bd", kinds=simple) for i in range(len(ads1))]
        pair_adapters = True
    if rng.random() < 0.12:
        # adapter names are free text and end up in the info file, in {name} file names and in the report
        a = rng.choice(ads1 + ads2)
        a["name"] = rng.choice(["adapt\u00e9r", "\u03b22", "\u540d", "a\u00df-1"])
        a["argv"] = [a["flag"], f"{a['name']}={a['spec']}"]
    opts = [x for a in ads1 + ads2 for x in a["argv"]]
    opts += ["-n", "1" if pair_adapters else str(rng.choice([1, 1, 2])), "-e", rng.choice(["0.1", "0.2"]), "-O", "3"]
    if pair_adapters:
        opts += ["--pair-adapters"]
    if rng.random() < 0.3:
        opts += ["--action", rng.choice(["mask", "lowercase", "none", "trim"])]
    if rng.random() < 0.3 and not paired:
        opts += ["--revcomp"]
    if rng.random() < 0.4:
        opts += ["-q", rng.choice(["10", "15,10"])]
    if rng.random() < 0.3:
        opts += ["--trim-n"]
    if rng.random() < 0.3:
        opts += ["-u", str(rng.choice([1, -2]))]
    if rng.random() < 0.25:
        opts += ["--poly-a"]
    if rng.random() < 0.2:
        opts += ["--length-tag", "length="]
    if rng.random() < 0.2:
        opts += ["--rename", "{id} {adapter_name} {match_sequence}"] if not paired else ["--rename", "{id} {r1.adapter_name}"]
    outs = []
    demux = rng.random() < 0.3
    if demux and rng.random() < 0.25:
        # an adapter named like the file for reads without adapter: the two groups share one output file
        a = ads1[0]
        a["argv"] = [a["flag"], a["argv"][1].replace(a["name"] + "=", "unknown=", 1)]
        a["name"] = "unknown"
        opts = [x for a_ in ads1 + ads2 for x in a_["argv"]] + opts[2 * len(ads1 + ads2):]
    fasta = rng.random() < 0.15 or fasta_pairs
    if fasta_pairs:
        opts = [o for i, o in enumerate(opts) if o != "-q" and (i == 0 or opts[i - 1] != "-q")]
    # extensions are recognised whatever their case
    ext = rng.choice([".fastq", ".fq", ".fastq.gz", ".fq.bz2", ".FASTQ", ".Fq.gz"]) if not fasta else rng.choice([".fasta", ".fa.gz", ".FASTA", ".Fa", ".FA.gz"])
    if rng.random() < 0.5:
        opts += ["-m", str(rng.randint(3, 20))]
        if rng.random() < 0.6:
            opts += ["--too-short-output", "ts1" + ext] + (["--too-short-paired-output", "ts2" + ext] if paired else [])
    if rng.random() < 0.3:
        opts += ["-M", str(rng.randint(20, 40))]
        if rng.random() < 0.6:
            opts += ["--too-long-output", "tl1" + ext] + (["--too-long-paired-output", "tl2" + ext] if paired else [])
    if rng.random() < 0.3:
        opts += ["--max-n", rng.choice(["0", "1", "0.2"])]
    if rng.random() < 0.3 and not fasta:
        opts += ["--max-ee", rng.choice(["1", "3"])]
    r = rng.random()
    if demux:
        if paired and ads2 and rng.random() < 0.4:
            io = ["-o", "cb.{name1}.{name2}.1" + ext, "-p", "cb.{name1}.{name2}.2" + ext]
        else:
            io = ["-o", "dm.{name}.1" + ext] + (["-p", "dm.{name}.2" + ext] if paired else [])
        if r < 0.3:
            opts += ["--discard-untrimmed"]
    else:
        if r < 0.2:
            opts += ["--discard-untrimmed"]
        elif r < 0.4:
            opts += ["--untrimmed-output", "ut1" + ext] + (["--untrimmed-paired-output", "ut2" + ext] if paired else [])
        elif r < 0.5:
            opts += ["--discard-trimmed"]
        if paired and rng.random() < 0.2:
            io = ["--interleaved", "-o", "inter" + ext]
            # redirect files must then be single files too
            opts = [o for i, o in enumerate(opts) if not (o.endswith("-paired-output") or (i > 0 and opts[i - 1].endswith("-paired-output")))]
        else:
            io = ["-o", "out1" + ext] + (["-p", "out2" + ext] if paired else [])
        if not paired and rng.random() < 0.12:
            # reads on standard output (the report then goes to standard error), with and without --fasta
            io = ["--fasta"] if rng.random() < 0.5 else []
    if not paired or rng.random() < 0.5:
        if rng.random() < 0.5:
            opts += ["--info-file", "info.tsv"]
        linked = any(a["kind"] == "linked" for a in ads1)   # rest/wildcard files are documented not to work with linked adapters
        if rng.random() < 0.3 and not linked:
            opts += ["--rest-file", "rest.txt"]
        if rng.random() < 0.3 and not linked:
            opts += ["--wildcard-file", "wild.txt"]
    if paired and rng.random() < 0.4:
        opts += ["--pair-filter", rng.choice(["any", "both", "first"])]
    n = rng.choice([rng.randint(30, 80), rng.randint(100, 400)])
    r = rng.random()
    if r < 0.05:
        n = 0                        # no chunk at all: every worker stays idle
    elif r < 0.1:
        n = rng.randint(1, 3)        # fewer reads than workers
    recs1, recs2 = G.gen_reads(rng, n, paired, ads1, ads2 or ads1, maxlen=40, nruns=True, polya="--poly-a" in opts,
                               header="gtcomment" if fasta_pairs else rng.choice(["plain", "casava", "lengthtag", "gtcomment"]), qual_profile=rng.choice(["decay", "mixed", "high"]),
                               revcomp_some="--revcomp" in opts)
    interleaved_in = paired and rng.random() < 0.25
    # FASTA input (only with FASTA outputs and without quality-based options)
    if fasta_pairs:
        opts = [o for i, o in enumerate(opts) if o != "--max-ee" and (i == 0 or opts[i - 1] != "--max-ee")]
    fasta_in = fasta and not any(o in opts for o in ("-q", "--max-ee", "--nextseq-trim")) and (rng.random() < 0.7 or fasta_pairs)
    if fasta_in and paired and (rng.random() < 0.5 or fasta_pairs):
        interleaved_in = True
    return dict(paired=paired, opts=opts, io=io, recs1=recs1, recs2=recs2 if paired else None, fasta_out=fasta, interleaved_in=interleaved_in,
                fasta_in=fasta_in)


def snapshot_dir(d, with_stdout=False):
    """{relative file name: decompressed bytes} of all output files in directory d."""
    out = {}
    for f in sorted(os.listdir(d)):
        p = os.path.join(d, f)
        if not os.path.isfile(p) or f.endswith(".stderr") or f == "rep.json" or (f.endswith(".stdout") and not with_stdout):
            continue
        try:
            out[f] = fastx.decompress_file(p)
        except Exception as e:
            out[f] = f"<<undecodable: {type(e).__name__}: {e}>>".encode()
    return out


def norm_json(path):
    with open(path) as f:
        j = json.load(f)
    j.pop("cores", None)
    j.pop("command_line_arguments", None)
    return j


def signature(run):
    """Interleaving actually observed: (chunk -> worker assignment, arrival order at the first writer, max held back)."""
    assign = {}
    arrival = []
    maxpend = 0
    handouts = 0
    for e in run.all_events():
        if e["k"] == "chunk_done":
            assign[e["chunk"]] = e["worker"]
        elif e["k"] == "ocw" and e["w"] == 0:
            arrival.append(e["idx"])
            held = len(e["pending"]) + (1 if e["idx"] != e["cur"] else 0)
            maxpend = max(maxpend, held)
        elif e["k"] == "handout":
            handouts += 1
    return tuple(sorted(assign.items())), tuple(arrival), maxpend, handouts


def one_case(ctx, k):
    rng = ctx.rng("c06", k)
    c = gen_case(rng, large=(k % 100000) % 25 == 1, fasta_pairs=(k % 100000) % 25 == 2)
    if c.get("large"):
        ctx.count("large_input_cases")
    d = os.path.join(ctx.scratch, f"c{k}")
    os.makedirs(d, exist_ok=True)
    try:
        fmt = "fasta" if c.get("fasta_in") else "fastq"
        ctx.count("input_format:" + fmt + (" interleaved" if c["interleaved_in"] else ""))
        if len(c["recs1"]) <= 3:
            ctx.count("inputs_without_reads" if not c["recs1"] else "inputs_with_fewer_reads_than_workers")
        if c["interleaved_in"]:
            inter = [x for pair in zip(c["recs1"], c["recs2"]) for x in pair]
            inputs = climon.write_inputs(d, inter, None, names=("inter", "unused"), fmt=fmt)
            io = c["io"] if "--interleaved" in c["io"] else ["--interleaved"] + c["io"]
        else:
            inputs = climon.write_inputs(d, c["recs1"], c["recs2"], fmt=fmt)
            io = c["io"]
        rel_inputs = ["../" + x for x in inputs]
        base = c["opts"] + ["--json", "rep.json"] + io + rel_inputs
        d1 = os.path.join(d, "j1")
        os.makedirs(d1)
        ref = climon.run(d1, base, tag="run", trace=False)
        ctx.count("commands")
        if ref.rc != 0:
            ctx.count("reference_run_failed")
            ctx.extra.setdefault("failed_example", (base, ref.err[-300:]))
            return
        to_stdout = "-o" not in io
        if to_stdout:
            ctx.count("reads_on_standard_output_cases")
        ref_files = snapshot_dir(d1, to_stdout)
        ref_json = norm_json(os.path.join(d1, "rep.json"))
        total_bytes = sum(len(r[0]) + len(r[1]) + len(r[2]) + 6 for r in c["recs1"])
        n_variants = ctx.scale(3, 6)
        for v in range(n_variants):
            cores = rng.choice([2, 2, 3, 4] if ctx.tier == "quick" else [2, 3, 4, 6, 8])
            # the (hidden) buffer size must hold at least one record (pair)
            biggest = max([len(r[0]) + 2 * len(r[1]) + 8 for r in c["recs1"] + (c["recs2"] or [])] or [64])
            bufsize = max(4 * biggest + 64, total_bytes // rng.choice([2, 3, 5, 9, 20, 60]))
            if rng.random() < 0.2:
                bufsize = rng.choice([total_bytes * 2 + 1000, 4000000])
            pseed = rng.getrandbits(30)
            dv = os.path.join(d, f"v{v}")
            os.makedirs(dv)
            argv = ["-j", str(cores), "--buffer-size", str(bufsize)] + base
            # now and then the whole run (reader, workers, writer) has to share one CPU
            cpus = sorted(os.sched_getaffinity(0))
            aff = {cpus[(k + v) % len(cpus)]} if rng.random() < 0.12 else None
            if aff:
                ctx.count("multicore_runs_confined_to_one_cpu")
            run = climon.run(dv, argv, tag="run", trace=True, perturb=pseed, trace_reads=False, timeout=120, affinity=aff)
            case = climon.case_record(argv, d, inputs)
            case.update(k=k, cores=cores, bufsize=bufsize, perturb=pseed, one_cpu=bool(aff))
            viol = lambda kind, text: ctx.violation(kind, f"{text}; cores={cores} buffer-size={bufsize} perturbation seed={pseed} argv={argv}", case, klass=kind)
            if run.res.timed_out:
                if run.res.deadlock:
                    ctx.case(("deadlock", k, v))
                    viol("deadlock", f"multi-core run did not terminate: all processes asleep with no CPU use ({run.res.procs})")
                else:
                    ctx.mark_inconclusive(f"watchdog fired without a confirmed deadlock for {argv}")
                continue
            sig = signature(run)
            nchunks = sig[3]
            ctx.case((str(base), cores, bufsize, pseed) if nchunks >= 2 else None)
            ctx.count("multicore_runs")
            ctx.extra.setdefault("sigs", set()).add(hash((sig[0], sig[1])) & 0xFFFFFFFF)
            if list(sig[1]) != sorted(sig[1]):
                ctx.count("runs_with_out_of_order_arrival")
            ctx.extra["max_held_back"] = max(ctx.extra.get("max_held_back", 0), sig[2])
            ctx.extra["max_chunks"] = max(ctx.extra.get("max_chunks", 0), nchunks)
            ctx.count("chunks_total", nchunks)
            if run.rc != 0:
                viol("multicore-run-failed", f"exit {run.rc} although the one-core run succeeded: {run.err.strip().splitlines()[-1][:200] if run.err.strip() else ''}")
                continue
            files = snapshot_dir(dv, to_stdout)
            files = {f: b for f, b in files.items() if not f.endswith(".ev") and f != "run.ev"}
            if set(files) != set(ref_files):
                viol("file-set-differs", f"files {sorted(set(files) ^ set(ref_files))} exist in only one of the runs")
            for f in sorted(set(files) & set(ref_files)):
                if files[f] != ref_files[f]:
                    a, b = ref_files[f], files[f]
                    pos = next((i for i in range(min(len(a), len(b))) if a[i] != b[i]), min(len(a), len(b)))
                    viol("content-differs", f"file {f} differs from the one-core file at byte {pos} (sizes {len(a)} vs {len(b)}): "
                         f"{a[max(0, pos-30):pos+40]!r} vs {b[max(0, pos-30):pos+40]!r}; arrival order {sig[1][:20]}")
                    break
            try:
                j = norm_json(os.path.join(dv, "rep.json"))
                if j != ref_json:
                    diff = [key for key in ref_json if ref_json.get(key) != j.get(key)]
                    sub = {}
                    for key in diff[:2]:
                        if isinstance(ref_json[key], dict):
                            sub[key] = {x: (ref_json[key][x], j[key].get(x)) for x in ref_json[key] if ref_json[key][x] != j[key].get(x)}
                        else:
                            sub[key] = "differs"
                    viol("report-differs", f"JSON report differs from the one-core report in {diff}: {str(sub)[:400]}")
            except (OSError, ValueError) as e:
                viol("report-missing", f"JSON report unreadable: {e}")
            if v == 0:
                ctx.sample(dict(argv=argv, chunks=nchunks, arrival_order=list(sig[1])[:30], chunk_to_worker=list(sig[0])[:12], max_held_back=sig[2]), limit=5)
            shutil.rmtree(dv, ignore_errors=True)
    finally:
        shutil.rmtree(d, ignore_errors=True)


def run_shard(ctx):
    if not climon.require_hooks(ctx, needed=("reader", "worker", "main-runner")):
        return
    for k in range(ctx.scale(14, 300)):
        if ctx.out_of_time():
            ctx.count("stopped_on_time_budget")
            break
        one_case(ctx, ctx.shard * 100000 + k)
    ctx.extra["sigs"] = sorted(ctx.extra.get("sigs", []))


def coverage_hook(coverage, merged):
    ex = coverage.get("extra", {})
    sigs = set()
    for lst in merged["extra"].get("sigs", []):
        sigs.update(lst)
    coverage["distinct_interleavings_observed"] = len(sigs)
    coverage["max_chunks_held_back_out_of_order"] = max(merged["extra"].get("max_held_back", [0]) or [0])
    coverage["max_chunks_in_one_run"] = max(merged["extra"].get("max_chunks", [0]) or [0])
    coverage.get("extra", {}).pop("sigs", None)


def verdict_hook(merged, tier):
    c = merged["counters"]
    out = []
    if c.get("commands", 0) and c.get("reference_run_failed", 0) > 0.25 * c["commands"]:
        out.append(f"{c['reference_run_failed']} of {c['commands']} one-core reference runs failed: {merged['extra'].get('failed_example', [''])[0]}")
    if not c.get("runs_with_out_of_order_arrival"):
        out.append("no multi-core run observed an out-of-order chunk arrival: the schedules explored were trivial")
    return out


def replay(ctx, case):
    ctx.shard = case["k"] // 100000
    one_case(ctx, case["k"])
