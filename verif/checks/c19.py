"""C19 - results do not depend on compression, file layout or how a format is requested."""
import os
import shutil

from .. import climon, fastx, gen_cli as G, refmodel as R

ID = "C19"
LEVEL = "exploration"
ENGINES = ["climon"]
TECHNIQUE = "differential observer over a matrix of real runs that differ only in input container, layout, output container, output name, --fasta and core count; output format checked against the documented file-name rule"
LEVEL_TEXT = ("For each generated base command the real tool is run on the same reads as plain, gzip, multi-member gzip, bzip2, xz and zstd "
              "input, as two paired files and as one interleaved file, writing plain or compressed, two-file or interleaved output, under "
              "output names with every recognised extension, with --fasta on standard output, with 1 and 2 cores. After decompression every "
              "variant must yield the record stream of the reference run; the format of every output must be the one the file name requests "
              "(.fasta/.fa vs .fastq/.fq before any compression suffix; --fasta for stdout; else the input format); FASTA input must give the "
              "names and sequences of the FASTQ run when no quality option is used.")
LEVEL_TEXT += ' Names outside the documented four (upper case, .fna, .csfasta, _sequence.txt, …) and two-file outputs whose names disagree must give, for every compression suffix and core count, what the plain single-core run of the same names gives; standard input is fed plain and compressed, from a file and through a pipe; paired data on standard output with --fasta; interleaved FASTA input with one and two cores.'
LEVEL_TEXT += ' Layout of redirect files against the layout of the main output, reads redirected to standard output with and without --fasta, more cores requested than CPUs available.'
LEVEL_TEXT += ' Demultiplexed files named after adapters that carry an extension: format and records as in the plain single-core run for every template suffix and core count.'
LEVEL_TEXT += ' Output names that are symbolic links to files with another extension.'
LEVEL_NOTE = ("Trusted base: Python's gzip/bz2/lzma modules and the zstd binary for producing and reading the containers, the independent "
              "parser, refmodel.output_format_from_name (the documented rule).")
VARIANTS = {"quick": ["plain"], "thorough": ["plain"]}
BUDGET_S = {"quick": 200, "thorough": 3000}
FLOORS = {"quick": 300, "thorough": 8000}
RULE = ("Seeded random base commands x 10-14 variants each. Non-trivial = a variant run (something other than the reference "
        "plain/plain/two-file/one-core run); distinct by (base command, input, variant).")
ASSUMPTIONS = ["gz/bz2/xz/zst all work offline in this sandbox (checked at start; a missing codec is skipped and counted)"]

AD = "AGATCGGAAGAGC"
CONTAINERS = ["gz", "gzmulti", "bz2", "xz", "zst"]
EXT = {"gz": ".gz", "gzmulti": ".gz", "bz2": ".bz2", "xz": ".xz", "zst": ".zst", "plain": ""}


def gen_base(rng):
    paired = rng.random() < 0.5
    ads1 = [G.gen_adapter(rng, 0, kinds=["a", "g", "b", "a$"])]
    ads2 = [G.gen_adapter(rng, 0, upper=True, prefix="bd", kinds=["a", "g"])] if paired and rng.random() < 0.5 else []
    opts = [x for a in ads1 + ads2 for x in a["argv"]]
    qual_opts = []
    if rng.random() < 0.4:
        qual_opts += ["-q", "15"]
    if rng.random() < 0.3:
        opts += ["-m", str(rng.randint(3, 15))]
    if rng.random() < 0.3:
        opts += ["--trim-n"]
    if rng.random() < 0.2:
        opts += ["-u", "2"]
    if rng.random() < 0.2:
        opts += ["--max-n", "1"]
    recs1, recs2 = G.gen_reads(rng, rng.randint(20, 60), paired, ads1, ads2 or ads1, maxlen=40, nruns=True, qual_profile="decay", header=rng.choice(["comment", "gtcomment"]))
    return dict(paired=paired, opts=opts, qual_opts=qual_opts, recs1=recs1, recs2=recs2 if paired else None)


def write_container(d, name, text, kind):
    data = text.encode()
    if kind == "gzmulti":
        blob = fastx.compress(data, "gz", members=3)
    else:
        blob = fastx.compress(data, kind)
    path = name + EXT[kind]
    with open(os.path.join(d, path), "wb") as f:
        f.write(blob)
    return path


def stream(d, path):
    """(format, records) of an output file after decompression; ('missing', None) / ('error', msg)."""
    p = os.path.join(d, path)
    if not os.path.exists(p):
        return ("missing", None)
    try:
        return fastx.read_records(p)
    except Exception as e:
        return ("error", f"{type(e).__name__}: {e}")


def one_case(ctx, k):
    rng = ctx.rng("c19", k)
    b = gen_base(rng)
    paired = b["paired"]
    d = os.path.join(ctx.scratch, f"c{k}")
    os.makedirs(d, exist_ok=True)
    try:
        fq1 = fastx.format_fastq(b["recs1"])
        fq2 = fastx.format_fastq(b["recs2"]) if paired else None
        with open(os.path.join(d, "in1.fastq"), "w") as f:
            f.write(fq1)
        if paired:
            with open(os.path.join(d, "in2.fastq"), "w") as f:
                f.write(fq2)
        base = b["opts"] + b["qual_opts"]
        ins = ["in1.fastq"] + (["in2.fastq"] if paired else [])
        ref_argv = base + ["-o", "ref1.fastq"] + (["-p", "ref2.fastq"] if paired else []) + ins
        case = climon.case_record(ref_argv, d, ins)
        case["k"] = k
        ref = climon.run(d, ref_argv, tag="ref", trace=False)
        ctx.count("base_commands")
        if ref.rc != 0:
            ctx.count("reference_run_failed")
            ctx.extra.setdefault("failed_example", (ref_argv, ref.err[-300:]))
            return
        R1 = stream(d, "ref1.fastq")
        R2 = stream(d, "ref2.fastq") if paired else None
        ref_holder = [R1, R2]
        if R1[0] != "fastq":
            ctx.violation("reference-format", f"reference run wrote {R1[0]} to ref1.fastq", case)
            return

        def variant(label, argv, outs, expect_fmt="fastq", names_seqs_only=False, stdout_name=None, stdin_path=None, affinity=None):
            R1, R2 = ref_holder
            """outs: list of (path, which_mate or 'interleaved')."""
            run = climon.run(d, argv, tag="v" + label.replace("/", "_").replace(" ", "_")[:40], trace=False, stdin_path=stdin_path, affinity=affinity)
            ctx.case((str(base), fq1[:200], label))
            ctx.count("variant:" + label.split("=")[0])
            v = lambda kind, text: ctx.violation(kind, f"variant [{label}] argv={argv}: {text}", dict(case, variant=label, vargv=argv), facts=dict(variant=label.split("=")[0]), klass=label.split("=")[0] + kind)
            if run.rc != 0:
                v("variant-failed", f"exit {run.rc}: {run.err.strip().splitlines()[-1][:200] if run.err.strip() else ''}")
                return
            for path, which in outs:
                if path == "-":
                    try:
                        fo = fastx.parse_any(run.out)
                    except Exception as e:
                        fo = ("error", str(e))
                else:
                    fo = stream(d, path)
                if fo[0] in ("missing", "error"):
                    v("variant-output", f"output {path}: {fo}")
                    continue
                if not fo[1] and not (R1 if which != 2 else R2)[1]:
                    # no record was written (every read filtered): an empty file has no format to observe
                    ctx.count("empty-output-format-unobservable")
                    continue
                if fo[0] != expect_fmt:
                    v("output-format", f"output {path} is {fo[0].upper()}, the name/options request {expect_fmt.upper()}")
                    continue
                if which == "interleaved":
                    exp = [x for pair in zip(R1[1], R2[1]) for x in pair]
                else:
                    exp = (R1 if which == 1 else R2)[1]
                got = fo[1]
                if expect_fmt == "fasta" or names_seqs_only:
                    exp = [(n, s) for n, s, q in exp]
                    got = [(n, s) for n, s, q in got]
                if got != exp:
                    j = next((i for i, (a, c) in enumerate(zip(got, exp)) if a != c), None)
                    v("records-differ", f"output {path}: {len(got)} records vs {len(exp)} in the reference; first difference at {j}: "
                      f"{got[j] if j is not None and j < len(got) else None} vs {exp[j] if j is not None else None}")

        # --- input containers
        kinds = rng.sample(CONTAINERS, 3 if ctx.tier == "quick" else 5)
        for kind in kinds:
            try:
                i1 = write_container(d, f"c_{kind}_1.fastq", fq1, kind)
                i2 = write_container(d, f"c_{kind}_2.fastq", fq2, kind) if paired else None
            except Exception as e:
                ctx.count("codec_unavailable:" + kind)
                continue
            argv = base + ["-o", f"o_{kind}_1.fastq"] + (["-p", f"o_{kind}_2.fastq"] if paired else []) + [i1] + ([i2] if paired else [])
            variant(f"input={kind}", argv, [(f"o_{kind}_1.fastq", 1)] + ([(f"o_{kind}_2.fastq", 2)] if paired else []))
        # --- output containers x names
        for kind in rng.sample(CONTAINERS[:1] + CONTAINERS[2:], 2 if ctx.tier == "quick" else 4):
            ext = rng.choice([".fastq", ".fq"]) + EXT[kind]
            argv = base + ["-o", f"oc1{ext}"] + (["-p", f"oc2{ext}"] if paired else []) + ins
            variant(f"output={kind}{ext}", argv, [(f"oc1{ext}", 1)] + ([(f"oc2{ext}", 2)] if paired else []))
        # --- FASTA requested through the output name, with and without compression, 1 and 2 cores
        for ext in rng.sample([".fasta", ".fa", ".fasta.gz", ".fa.gz", ".fasta.bz2", ".fa.xz"], 2 if ctx.tier == "quick" else 4):
            for cores in (1, 2):
                tag = f"fa{cores}{ext}"
                argv = base + (["-j", "2", "--buffer-size", "2000"] if cores == 2 else []) + ["-o", f"n1_{cores}{ext}"] + (["-p", f"n2_{cores}{ext}"] if paired else []) + ins
                variant(f"name={ext} cores={cores}", argv, [(f"n1_{cores}{ext}", 1)] + ([(f"n2_{cores}{ext}", 2)] if paired else []), expect_fmt="fasta")
        # --- the name that was given decides, also when it is a symbolic link to a file called otherwise
        if not paired:
            os.makedirs(os.path.join(d, "store"), exist_ok=True)
            for link, target in (("ln1.fasta", "store/blob.dat"), ("ln2.fa.gz", "store/blob.bin.gz")):
                if not os.path.lexists(os.path.join(d, link)):
                    os.symlink(target, os.path.join(d, link))
            lk = rng.choice(["ln1.fasta", "ln2.fa.gz"])
            cores = rng.choice([1, 2])
            variant(f"symlinked-name={lk} cores={cores}", base + (["-j", "2", "--buffer-size", "2000"] if cores == 2 else []) + ["-o", lk] + ins, [(lk, 1)], expect_fmt="fasta")
        # --- names outside the documented four (other spellings, upper case, legacy extensions): whatever format the plain
        #     single-core run of that name produces, every compression suffix and core count must produce the same
        for stem in rng.sample([".FASTA", ".Fa", ".FQ", ".fna", ".csfasta", ".csfa", "_sequence.txt", ".txt", ".seq", ".fastq.txt"], 2 if ctx.tier == "quick" else 5):
            nm = lambda mate, cores, sfx: f"x{mate}_{cores}{stem}{sfx}"
            r0 = climon.run(d, base + ["-o", nm(1, 1, "")] + (["-p", nm(2, 1, "")] if paired else []) + ins, tag="nm0", trace=False)
            if r0.rc != 0:
                ctx.count("name-consistency-plain-run-failed")
                continue
            f0 = stream(d, nm(1, 1, ""))
            if f0[0] in ("missing", "error") or not f0[1]:
                ctx.count("name-consistency-format-unobservable")
                continue
            for sfx in ["", rng.choice([".gz", ".bz2", ".xz", ".zst"])]:
                for cores in (1, 2):
                    if (sfx, cores) == ("", 1):
                        continue
                    argv = base + (["-j", "2", "--buffer-size", "2000"] if cores == 2 else []) + ["-o", nm(1, cores, sfx)] + (["-p", nm(2, cores, sfx)] if paired else []) + ins
                    variant(f"name-consistency={stem}{sfx} cores={cores}", argv, [(nm(1, cores, sfx), 1)] + ([(nm(2, cores, sfx), 2)] if paired else []),
                            expect_fmt=f0[0], names_seqs_only=(f0[0] == "fasta"))
        # --- two-file output whose two names do not say the same: whatever the plain single-core run writes into each file,
        #     a compression suffix and a second core must not change it
        if paired:
            e1, e2 = rng.choice([(".txt", ".fasta"), (".fasta", ".txt"), ("", ".fa"), (".fq", ".fasta"), (".fasta", ".fastq"), (".out", ".out")])
            pn = lambda mate, cores, sfx: f"y{mate}_{cores}{e1 if mate == 1 else e2}{sfx}"
            r0 = climon.run(d, base + ["-o", pn(1, 1, ""), "-p", pn(2, 1, "")] + ins, tag="pn0", trace=False)
            f1, f2 = stream(d, pn(1, 1, "")), stream(d, pn(2, 1, ""))
            if r0.rc == 0 and f1[0] not in ("missing", "error") and f2[0] not in ("missing", "error") and f1[1] and f2[1]:
                for sfx, cores in (("", 2), (rng.choice([".gz", ".bz2", ".xz"]), 1)):
                    argv = base + (["-j", "2", "--buffer-size", "2000"] if cores == 2 else []) + ["-o", pn(1, cores, sfx), "-p", pn(2, cores, sfx)] + ins
                    variant(f"pair-names={e1}+{e2}{sfx} cores={cores} R1", argv, [(pn(1, cores, sfx), 1)], expect_fmt=f1[0], names_seqs_only=(f1[0] == "fasta"))
                    variant(f"pair-names={e1}+{e2}{sfx} cores={cores} R2", argv, [(pn(2, cores, sfx), 2)], expect_fmt=f2[0], names_seqs_only=(f2[0] == "fasta"))
            else:
                ctx.count("pair-names-plain-run-unusable")
        # --- unknown extension: falls back to the input format
        argv = base + ["-o", "u1.out"] + (["-p", "u2.out"] if paired else []) + ins
        variant("name=.out", argv, [("u1.out", 1)] + ([("u2.out", 2)] if paired else []))
        # --- several outputs whose names request different formats (or none): each output follows its own name
        if not paired and "-m" not in base:
            for ts, main, fmt_main in (("ts.fasta", "mx.out", "fastq"), ("ts.fa.gz", "mx.txt", "fastq"), ("ts.out", "mx.fasta", "fasta"),
                                        ("ts.fastq", "mx.fa", "fasta")):
                argv = base + ["-m", "12", "--too-short-output", ts, "-o", main] + ins
                # reference for this variant: the same filter with plain names
                refm = climon.run(d, base + ["-m", "12", "--too-short-output", "rts.fastq", "-o", "rmx.fastq"] + ins, tag="refm", trace=False)
                if refm.rc != 0:
                    break
                save = list(ref_holder)
                ref_holder[0] = stream(d, "rmx.fastq")
                variant(f"mixed-names={ts}+{main}", argv, [(main, 1)], expect_fmt=R.output_format_from_name(main) or "fastq")
                ref_holder[0] = stream(d, "rts.fastq")
                variant(f"mixed-names-redirect={ts}+{main}", argv, [(ts, 1)],
                        expect_fmt=R.output_format_from_name(ts) or "fastq")
                ref_holder[:] = save
        # --- cores
        argv = base + ["-j", "2", "--buffer-size", "1500", "-o", "j1.fastq"] + (["-p", "j2.fastq"] if paired else []) + ins
        variant("cores=2", argv, [("j1.fastq", 1)] + ([("j2.fastq", 2)] if paired else []))
        # --- more cores requested than the process may use (a one-CPU container): still the same records
        one_cpu = {sorted(os.sched_getaffinity(0))[k % len(os.sched_getaffinity(0))]}
        ext1 = rng.choice([".fastq", ".fastq.gz", ".fasta"])
        argv = base + ["-j", str(rng.choice([2, 3])), "-o", "a1" + ext1] + (["-p", "a2" + ext1] if paired else []) + ins
        variant("cores>cpus", argv, [("a1" + ext1, 1)] + ([("a2" + ext1, 2)] if paired else []), expect_fmt="fasta" if ext1 == ".fasta" else "fastq", affinity=one_cpu)
        # --- stdout, with and without --fasta
        if not paired:
            variant("stdout", base + ins, [("-", 1)])
            variant("stdout --fasta", base + ["--fasta"] + ins, [("-", 1)], expect_fmt="fasta")
            variant("stdout --fasta cores=2", base + ["--fasta", "-j", "2"] + ins, [("-", 1)], expect_fmt="fasta")
            if not any(o in base for o in ("-m", "-M", "--untrimmed-output", "--discard-untrimmed", "--discard-trimmed")):
                # reads that a filter redirects to standard output are reads on standard output, too
                refm = climon.run(d, base + ["-m", "12", "--too-short-output", "rs.fastq", "-o", "rso.fastq"] + ins, tag="refs", trace=False)
                if refm.rc == 0:
                    save = list(ref_holder)
                    ref_holder[0] = stream(d, "rs.fastq")
                    variant("stdout-redirect --fasta", base + ["--fasta", "-m", "12", "--too-short-output", "-", "-o", "so.fastq"] + ins, [("-", 1)], expect_fmt="fasta")
                    variant("stdout-redirect", base + ["-m", "12", "--too-short-output", "-", "-o", "so2.fastq"] + ins, [("-", 1)])
                    ref_holder[:] = save
            # --fasta is documented for standard output: a named output still follows its name / the input format
            variant("--fasta name=.txt", base + ["--fasta", "-o", "ff.txt"] + ins, [("ff.txt", 1)])
            variant("--fasta name=.dat.gz", base + ["--fasta", "-o", "ff.dat.gz"] + ins, [("ff.dat.gz", 1)])
            variant("--fasta name=.fastq cores=2", base + ["--fasta", "-j", "2", "-o", "ff.fastq"] + ins, [("ff.fastq", 1)])
            # input from standard input, one and two cores
            variant("input=stdin", base + ["-o", "si1.fastq", "-"], [("si1.fastq", 1)], stdin_path=os.path.join(d, "in1.fastq"))
            variant("input=stdin cores=2", base + ["-j", "2", "--buffer-size", "2000", "-o", "si2.fastq", "-"], [("si2.fastq", 1)],
                    stdin_path=os.path.join(d, "in1.fastq"))
            # compressed data on standard input
            for kind in rng.sample([k_ for k_ in CONTAINERS if k_ != "plain"], 2):
                try:
                    zi = write_container(d, f"zin_{kind}.fastq", fq1, kind)
                except Exception:
                    ctx.count("codec_unavailable:" + kind)
                    continue
                cores = rng.choice([1, 2])
                variant(f"input=stdin-{kind} cores={cores}", base + (["-j", "2"] if cores == 2 else []) + ["-o", f"sz_{kind}.fastq", "-"],
                        [(f"sz_{kind}.fastq", 1)], stdin_path=("pipe:" if rng.random() < 0.7 else "") + os.path.join(d, zi))
            variant("input=stdin-pipe", base + ["-o", "sp1.fastq", "-"], [("sp1.fastq", 1)], stdin_path="pipe:" + os.path.join(d, "in1.fastq"))
        else:
            # paired data on standard output is interleaved; --fasta applies to it as well
            variant("stdout interleaved", base + ["--interleaved"] + ins, [("-", "interleaved")])
            variant("stdout interleaved --fasta", base + ["--interleaved", "--fasta"] + ins, [("-", "interleaved")], expect_fmt="fasta")
            variant("stdout interleaved --fasta cores=2", base + ["--interleaved", "--fasta", "-j", "2"] + ins, [("-", "interleaved")], expect_fmt="fasta")
        # --- compression level does not change the content
        lvl = rng.choice(["1", "5", "9"])
        argv = base + ["--compression-level", lvl, "-o", "cl1.fastq.gz"] + (["-p", "cl2.fastq.gz"] if paired else []) + ins
        variant(f"compression-level={lvl}", argv, [("cl1.fastq.gz", 1)] + ([("cl2.fastq.gz", 2)] if paired else []))
        # --- layout
        if paired:
            inter = fastx.format_fastq([x for pair in zip(b["recs1"], b["recs2"]) for x in pair])
            with open(os.path.join(d, "inter.fastq"), "w") as f:
                f.write(inter)
            variant("layout=interleaved-in", base + ["--interleaved", "-o", "li1.fastq", "-p", "li2.fastq", "inter.fastq"], [("li1.fastq", 1), ("li2.fastq", 2)])
            variant("layout=interleaved-out", base + ["--interleaved", "-o", "lo.fastq"] + ins, [("lo.fastq", "interleaved")])
            variant("layout=interleaved-both", base + ["--interleaved", "-o", "lb.fastq.gz", "inter.fastq"], [("lb.fastq.gz", "interleaved")])
            variant("layout=interleaved-out cores=2", base + ["--interleaved", "-j", "2", "-o", "lc.fastq"] + ins, [("lc.fastq", "interleaved")])
        # --- layout of the redirect files: a filter's output is two files or interleaved according to its own options,
        #     whatever the layout of the main output is
        if paired and not any(o in base for o in ("-m", "-M", "--untrimmed-output", "--discard-untrimmed", "--discard-trimmed")):
            flt, o1, o2 = rng.choice([(["-m", "12"], "--too-short-output", "--too-short-paired-output"),
                                      (["-M", "20"], "--too-long-output", "--too-long-paired-output"),
                                      ([], "--untrimmed-output", "--untrimmed-paired-output")])
            refm = climon.run(d, base + flt + [o1, "rr1.fastq", o2, "rr2.fastq", "-o", "rm1.fastq", "-p", "rm2.fastq"] + ins, tag="refl", trace=False)
            if refm.rc == 0:
                save = list(ref_holder)
                main_ref = [stream(d, "rm1.fastq"), stream(d, "rm2.fastq")]
                red_ref = [stream(d, "rr1.fastq"), stream(d, "rr2.fastq")]
                for tag, argv, main_outs, red_outs in (
                        ("main-interleaved redirect-two-files", base + flt + ["--interleaved", o1, "la1.fastq", o2, "la2.fastq", "-o", "lam.fastq"] + ins,
                         [("lam.fastq", "interleaved")], [("la1.fastq", 1), ("la2.fastq", 2)]),
                        ("both-interleaved cores=2", base + flt + ["--interleaved", "-j", "2", o1, "lcr.fastq", "-o", "lcm.fastq"] + ins,
                         [("lcm.fastq", "interleaved")], [("lcr.fastq", "interleaved")])):
                    ref_holder[:] = main_ref
                    variant(f"redirect-layout={o1} {tag} main", argv, main_outs)
                    ref_holder[:] = red_ref
                    variant(f"redirect-layout={o1} {tag} redirect", argv, red_outs)
                ref_holder[:] = save
            else:
                ctx.count("redirect-layout-reference-failed")
        # --- demultiplexed files: the format follows the name of the file that is created (here: the adapter's name), whatever
        #     the compression suffix of the template and the number of cores
        if not paired and len(b["recs1"]) >= 4:
            pf = []
            for _n, s_, _q in b["recs1"]:
                if len(s_) >= 8 and s_[:6].upper() not in pf and set(s_[:6].upper()) <= set("ACGT"):
                    pf.append(s_[:6].upper())
                if len(pf) == 2:
                    break
            if len(pf) == 2:
                names = [rng.choice(["sA.fasta", "sA.fa", "sA.fastq"]), rng.choice(["sB.fa", "sB", "sB.fq"])]
                dm = ["-g", f"{names[0]}=^{pf[0]}", "-g", f"{names[1]}=^{pf[1]}", "-e", "0", "--no-indels"]
                got = {}
                for tag, extra, tmpl_sfx in (("ref", [], ""), ("cores2", ["-j", "2", "--buffer-size", "2000"], ""), ("gz", [], ".gz"), ("gz-cores2", ["-j", "2"], ".gz")):
                    os.makedirs(os.path.join(d, "dq_" + tag), exist_ok=True)
                    r_ = climon.run(d, dm + extra + ["-o", f"dq_{tag}/{{name}}{tmpl_sfx}"] + ins, tag="dq" + tag, trace=False)
                    if r_.rc != 0:
                        got = None
                        break
                    got[tag] = {nm: stream(d, f"dq_{tag}/{nm}{tmpl_sfx}") for nm in names + ["unknown"]}
                if got:
                    ctx.count("variant:demultiplexed-name-format")
                    ctx.case((str(dm), fq1[:200], "demux-names"))
                    for tag in ("cores2", "gz", "gz-cores2"):
                        for nm in names + ["unknown"]:
                            a_, b_ = got["ref"][nm], got[tag][nm]
                            if a_[0] in ("missing", "error") or not a_[1]:
                                continue
                            same = a_[0] == b_[0] and [(x[0], x[1]) for x in a_[1]] == [(x[0], x[1]) for x in (b_[1] or [])]
                            if not same:
                                ctx.violation("output-format" if a_[0] != b_[0] else "records-differ",
                                              f"variant [demultiplexed-name-format {tag}] file {nm}: plain single-core run wrote {a_[0]} with {len(a_[1])} records, "
                                              f"this run {b_[0]} with {len(b_[1] or [])}; argv={dm}", dict(case, variant="demux-names " + tag),
                                              facts=dict(variant="demultiplexed-name-format"), klass="demux-names")
        # --- FASTA input: same names and sequences when no quality option is used
        if not b["qual_opts"]:
            with open(os.path.join(d, "in1.fasta"), "w") as f:
                f.write(fastx.format_fasta(b["recs1"], width=rng.choice([None, 20])))
            if paired:
                with open(os.path.join(d, "in2.fasta"), "w") as f:
                    f.write(fastx.format_fasta(b["recs2"]))
            argv = b["opts"] + ["-o", "fi1.fasta"] + (["-p", "fi2.fasta"] if paired else []) + ["in1.fasta"] + (["in2.fasta"] if paired else [])
            variant("input=fasta", argv, [("fi1.fasta", 1)] + ([("fi2.fasta", 2)] if paired else []), expect_fmt="fasta")
            if paired:
                # one interleaved FASTA file instead of two, one core and two
                with open(os.path.join(d, "inter.fasta"), "w") as f:
                    f.write(fastx.format_fasta([x for pair in zip(b["recs1"], b["recs2"]) for x in pair], width=rng.choice([None, 25])))
                for cores in (1, 2):
                    jj = ["-j", "2", "--buffer-size", str(rng.choice([1500, 3000, 4000000]))] if cores == 2 else []
                    variant(f"input=fasta-interleaved cores={cores}", b["opts"] + jj + ["--interleaved", "-o", f"fx{cores}_1.fasta", "-p", f"fx{cores}_2.fasta", "inter.fasta"],
                            [(f"fx{cores}_1.fasta", 1), (f"fx{cores}_2.fasta", 2)], expect_fmt="fasta")
            argv = b["opts"] + ["-o", "fu1.out"] + (["-p", "fu2.out"] if paired else []) + ["in1.fasta"] + (["in2.fasta"] if paired else [])
            variant("input=fasta name=.out", argv, [("fu1.out", 1)] + ([("fu2.out", 2)] if paired else []), expect_fmt="fasta")
        ctx.sample(dict(base=base, paired=paired, n_reads=len(b["recs1"])), limit=4)
    finally:
        shutil.rmtree(d, ignore_errors=True)


def large_case(ctx, k):
    """Several MB through two cores in chunks of more than a MiB, plain and compressed output: the same records as with one core."""
    from . import c06
    rng = ctx.rng("c19large", k)
    c = c06.gen_large_case(rng, huge=True)
    d = os.path.join(ctx.scratch, f"L{k}")
    os.makedirs(d, exist_ok=True)
    try:
        inputs = climon.write_inputs(d, c["recs1"], c["recs2"])
        total = sum(len(r[1]) * 2 + len(r[0]) + 6 for r in c["recs1"])
        sfx = rng.choice(["", ".gz"])
        outs = ["L1.fastq" + sfx] + (["L2.fastq" + sfx] if c["paired"] else [])
        base = ["-a", c["opts"][1]] + (["-A", c["opts"][1].replace("ad=", "bd=")] if c["paired"] else [])
        io = lambda t: ["-o", t + outs[0]] + (["-p", t + outs[1]] if c["paired"] else []) + inputs
        ref = climon.run(d, base + io("r"), tag="ref", trace=False, timeout=120)
        buf = max(1300000, total // rng.choice([5, 6, 8]))
        var = climon.run(d, base + ["-j", str(rng.choice([2, 3])), "--buffer-size", str(buf)] + io("v"), tag="var", trace=False, timeout=180)
        case = dict(large=True, k=k)
        ctx.count("large_input_cases")
        if ref.rc != 0 or var.rc != 0:
            ctx.case(("large-failed", k))
            ctx.violation("variant-failed", f"large input: exit {ref.rc} with one core, {var.rc} with several: {var.err.strip().splitlines()[-1][:200] if var.err.strip() else ''}", case)
            return
        for o in outs:
            a, b = stream(d, "r" + o), stream(d, "v" + o)
            ctx.case(("large", k, o, total))
            if a != b:
                na = len(a[1]) if a[1] else None
                nb = len(b[1]) if b[1] else None
                ctx.violation("records-differ", f"large input ({total} bytes, buffer {buf}): {o} holds {nb} records with several cores, {na} with one core", case, klass="large")
    finally:
        shutil.rmtree(d, ignore_errors=True)


def run_shard(ctx):
    if ctx.shard % 4 == 1 or ctx.tier == "thorough":
        for k in range(ctx.scale(1, 6)):
            large_case(ctx, ctx.shard * 100000 + k)
    for k in range(ctx.scale(14, 300)):
        if ctx.out_of_time():
            ctx.count("stopped_on_time_budget")
            break
        one_case(ctx, ctx.shard * 100000 + k)


def verdict_hook(merged, tier):
    c = merged["counters"]
    if c.get("base_commands", 0) and c.get("reference_run_failed", 0) > 0.2 * c["base_commands"]:
        return [f"{c['reference_run_failed']} reference runs failed: {merged['extra'].get('failed_example', [''])[0]}"]
    return []


def replay(ctx, case):
    ctx.shard = case["k"] // 100000
    if case.get("large"):
        large_case(ctx, case["k"])
        return
    one_case(ctx, case["k"])
