import sys
from .harness import main

if __name__ == "__main__":
    sys.exit(main())
