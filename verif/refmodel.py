"""
Independent reference code: the trusted base of the oracles. Written from the
documentation (doc/guide.rst, doc/algorithms.rst, doc/reference.rst), not from the code.
Nothing here imports cutadapt.
"""
import math
from fractions import Fraction

IUPAC = {
    "A": "A", "C": "C", "G": "G", "T": "T", "U": "T",
    "R": "AG", "Y": "CT", "S": "GC", "W": "AT", "K": "GT", "M": "AC",
    "B": "CGT", "D": "AGT", "H": "ACT", "V": "ACG", "N": "ACGT", "X": "",
}
_COMP = str.maketrans("ACGTUMRWSYKVHDBNacgtumrwsykvhdbn", "TGCAAKYWSRMBDHVNtgcaakywsrmbdhvn")


def revcomp(s: str) -> str:
    return s.translate(_COMP)[::-1]


def normalize_adapter(seq: str) -> str:
    """What the CLI does to an adapter sequence: upper case, U->T, I->N."""
    return seq.upper().replace("U", "T").replace("I", "N")


def make_eq(adapter_wildcards: bool, read_wildcards: bool):
    """Match relation between one adapter character and one read character.

    neither: ASCII equality ignoring case.
    adapter wildcards only: adapter IUPAC code vs literal read base (ACGT, U=T); adapter N
        also matches any read character that is not a literal base.
    read wildcards only: symmetric.
    both: the two IUPAC sets intersect.
    """
    cache = {}

    def code(c, wild):
        c = c.upper()
        if wild:
            return frozenset(IUPAC.get(c, "")), c == "N"
        return (frozenset(IUPAC[c]) if c in "ACGTU" else frozenset()), False

    def eq(a, r):
        k = (a, r)
        v = cache.get(k)
        if v is not None:
            return v
        if not adapter_wildcards and not read_wildcards:
            v = a.upper() == r.upper()
        else:
            sa, na = code(a, adapter_wildcards)
            sr, nr = code(r, read_wildcards)
            v = bool(sa & sr)
            if not v and adapter_wildcards and not read_wildcards and na and not sr:
                v = True
            if not v and read_wildcards and not adapter_wildcards and nr and not sa:
                v = True
        cache[k] = v
        return v

    return eq


def edit_distance(a: str, r: str, eq) -> int:
    m, n = len(a), len(r)
    prev = list(range(n + 1))
    for i in range(1, m + 1):
        cur = [i] + [0] * n
        ai = a[i - 1]
        for j in range(1, n + 1):
            c = prev[j - 1] + (0 if eq(ai, r[j - 1]) else 1)
            d = prev[j] + 1
            if d < c:
                c = d
            d = cur[j - 1] + 1
            if d < c:
                c = d
            cur[j] = c
        prev = cur
    return prev[n]


def hamming(a: str, r: str, eq) -> int:
    assert len(a) == len(r)
    return sum(0 if eq(x, y) else 1 for x, y in zip(a, r))


# ---------------------------------------------------------------------------
# adapter types

# (start_in_adapter, start_in_read, stop_in_adapter, stop_in_read): which ends may be skipped
#   start_in_adapter: the alignment may begin inside the adapter (adapter prefix skipped)
#   start_in_read:    a read prefix may be skipped
#   stop_in_adapter:  the alignment may end inside the adapter (adapter suffix skipped)
#   stop_in_read:     a read suffix may be skipped
FLAGS = {
    "back": (False, True, True, True),
    "front": (True, True, False, True),
    "prefix": (False, False, False, True),
    "suffix": (False, True, False, False),
    "nfront": (True, False, False, True),
    "nback": (False, True, True, False),
    "anywhere": (True, True, True, True),
}
TYPES = ["back", "front", "prefix", "suffix", "nfront", "nback", "anywhere", "rightmost"]


def frame(t: str, force_anywhere: bool = False) -> str:
    if force_anywhere and t in ("back", "front", "rightmost"):
        return "anywhere"
    return "front" if t == "rightmost" else t


def placement_ok(t, m, n, astart, astop, rstart, rstop, force_anywhere=False):
    """Documented placement rule per adapter type (doc/guide.rst, 'Adapter types')."""
    t = frame(t, force_anywhere)
    if t == "back":
        return astart == 0 and (astop == m or rstop == n)
    if t == "front":
        return astop == m and (astart == 0 or rstart == 0)
    if t == "prefix":
        return astart == 0 and astop == m and rstart == 0
    if t == "suffix":
        return astart == 0 and astop == m and rstop == n
    if t == "nfront":
        return astop == m and rstart == 0
    if t == "nback":
        return astart == 0 and rstop == n
    if t == "anywhere":
        return (astart == 0 or rstart == 0) and (astop == m or rstop == n)
    raise ValueError(t)


def effective_len(aseq, a0, a1, adapter_wildcards):
    seg = aseq[a0:a1]
    return len(seg) - (seg.count("N") if adapter_wildcards else 0)


def within_tolerance(errors, rate, eff):
    # the documented rule: errors <= rate * (aligned adapter bases that are not N)
    # evaluated as the tool states it (floating point product), with an exact cross-check
    return errors <= rate * eff


def admissible_ungapped(t, aseq, read, rate, min_overlap, eq, adapter_wildcards, force_anywhere=False):
    """Yield every acceptable ungapped occurrence (a0, a1, r0, r1, cost) the type admits."""
    t2 = frame(t, force_anywhere)
    sa, sr, ea, er = FLAGS[t2]
    m, n = len(aseq), len(read)
    for d in range(-m, n + 1):  # adapter position i is aligned to read position i + d
        a0 = max(0, -d)
        r0 = a0 + d
        L = min(m - a0, n - r0)
        if L <= 0:
            continue
        a1, r1 = a0 + L, r0 + L
        if a0 > 0 and not sa:
            continue
        if r0 > 0 and not sr:
            continue
        if a1 < m and not ea:
            continue
        if r1 < n and not er:
            continue
        cost = 0
        for k in range(L):
            if not eq(aseq[a0 + k], read[r0 + k]):
                cost += 1
        if L >= min_overlap and cost <= rate * effective_len(aseq, a0, a1, adapter_wildcards):
            yield (a0, a1, r0, r1, cost)


def exists_gapped_no_adapter_start_skip(t, aseq, read, rate, min_overlap, eq, adapter_wildcards):
    """
    For types that cannot skip the beginning of the adapter in the aligner's frame
    (back, nback, suffix, prefix; rightmost on the reversed strings): is there an admissible
    occurrence with indels within tolerance? Returns (i, j, cost) of an accepted end cell or None.
    """
    A, R = aseq, read
    if t == "rightmost":
        A, R = A[::-1], R[::-1]
        fl = FLAGS["back"]
    else:
        fl = FLAGS[t]
    sa, sr, ea, er = fl
    assert not sa
    m, n = len(A), len(R)
    D = [[0] * (n + 1) for _ in range(m + 1)]
    for j in range(n + 1):
        D[0][j] = 0 if sr else j
    for i in range(1, m + 1):
        D[i][0] = i
        Di, Dp = D[i], D[i - 1]
        ai = A[i - 1]
        for j in range(1, n + 1):
            c = Dp[j - 1] + (0 if eq(ai, R[j - 1]) else 1)
            if Dp[j] + 1 < c:
                c = Dp[j] + 1
            if Di[j - 1] + 1 < c:
                c = Di[j - 1] + 1
            Di[j] = c
    for i in range(1, m + 1):
        if i < m and not ea:
            continue
        if i < min_overlap:
            continue
        eff = effective_len(A, 0, i, adapter_wildcards)
        for j in range(0, n + 1):
            if j < n and not er:
                continue
            if i < m and j < n:
                continue  # a partial adapter occurrence must reach the end of the read
            if D[i][j] <= rate * eff:
                return (i, j, D[i][j])
    return None


def exact_full_copies(aseq, read, eq):
    m = len(aseq)
    return [p for p in range(0, len(read) - m + 1) if all(eq(aseq[k], read[p + k]) for k in range(m))]


# ---------------------------------------------------------------------------
# quality trimming, poly-A, expected errors


def qtrim3(q, cutoff):
    """BWA: among suffixes reached before the running sum of (q - cutoff) becomes positive,
    the one with minimal sum, shortest on ties. q: list of ints. Returns the stop index."""
    n = len(q)
    s = 0
    cand = [(0, n)]
    for i in range(n - 1, -1, -1):
        s += q[i] - cutoff
        if s > 0:
            break
        cand.append((s, i))
    mn = min(c[0] for c in cand)
    return max(i for v, i in cand if v == mn)


def qtrim(q, cutoff_front, cutoff_back):
    stop = qtrim3(q, cutoff_back)
    start = len(q) - qtrim3(q[::-1], cutoff_front)
    if start >= stop:
        return (0, 0)
    return (start, stop)


def nextseq_trim(seq, q, cutoff):
    q2 = [cutoff - 1 if b == "G" else x for b, x in zip(seq, q)]
    return qtrim3(q2, cutoff)


def poly_a_index(s):
    """Start of the poly-A tail: among suffixes with at most 20% non-A, maximal score
    (+1 per A, -2 otherwise), shorter on ties; tails shorter than 3 are ignored."""
    n = len(s)
    best_i, best = n, 0
    a = o = 0                      # A's and other characters in the suffix s[i:]
    for i in range(n - 1, -1, -1):
        if s[i] == "A":
            a += 1
        else:
            o += 1
        if o * 5 <= a + o:
            sc = a - 2 * o
            if sc > best:
                best, best_i = sc, i
    if n - best_i < 3:
        best_i = n
    return best_i


def poly_t_index(s):
    """End of the poly-T head (mirror image of poly_a_index)."""
    mirrored = "".join("A" if c == "T" else ("T" if c == "A" else c) for c in s[::-1])
    return len(s) - poly_a_index(mirrored)


def expected_errors(quals, base=33):
    return math.fsum(10 ** (-(ord(c) - base) / 10) for c in quals)


def n_count(seq):
    return seq.count("N") + seq.count("n")


def too_many_n(seq, cutoff_text):
    """--max-n: a value below 1 is a fraction of the read length. Compared exactly as the
    decimal given. Returns (verdict, borderline) where borderline means the exact decimal
    comparison and a float comparison could differ."""
    c = Fraction(cutoff_text)
    n = n_count(seq)
    if c < 1:
        if len(seq) == 0:
            return False, False
        exact = Fraction(n, len(seq)) > c
        fl = n / len(seq) > float(cutoff_text)
        return exact, exact != fl
    return n > c, False


def nend_trim(seq):
    i = 0
    while i < len(seq) and seq[i] == "N":
        i += 1
    j = len(seq)
    while j > i and seq[j - 1] == "N":
        j -= 1
    return i, j


def casava_filtered(name):
    _, _, right = name.partition(" ")
    return right[1:4] == ":Y:"


def output_format_from_name(path):
    """'fasta'/'fastq' from the file name with one compression suffix stripped, else None."""
    p = path.lower()
    for ext in (".gz", ".bz2", ".xz", ".zst"):
        if p.endswith(ext):
            p = p[: -len(ext)]
            break
    if p.endswith((".fasta", ".fa", ".fna")):
        return "fasta"
    if p.endswith((".fastq", ".fq")):
        return "fastq"
    return None
